/-
  Layout.lean — C18 (on-disk layout: one file per object, named by its uuid, found again by
  directory listing) and C19 (whatever arguments a search receives, it answers with an error
  of a documented class or with a valid result; a query that could not be evaluated never
  denotes objects).
-/
import Proofs.Crud
import SodModel.Layout
import SodModel.Search

/-! ## Part 1 — C18: names -/

namespace Sod.Layout

/-- every character of a uuid-shaped name is a dash or a hexadecimal digit -/
theorem uuidShaped_chars (u : Name) (h : uuidShaped u = true) : ∀ c ∈ u, c = '-' ∨ isHex c = true := by
  unfold uuidShaped at h
  rw [Bool.and_eq_true, List.all_eq_true] at h
  obtain ⟨hl, ha⟩ := h
  have hl : u.length = 36 := by simpa using hl
  intro c hc
  obtain ⟨i, hi, rfl⟩ := List.getElem_of_mem hc
  have hi' : i < 36 := hl ▸ hi
  have := ha i (List.mem_range.mpr hi')
  have hg : u.getD i ' ' = u[i] := by simp [List.getD, hi]
  simp only [hg] at this
  split at this
  · exact Or.inl (by simpa using this)
  · exact Or.inr this

theorem uuidShaped_length (u : Name) (h : uuidShaped u = true) : u.length = 36 := by
  unfold uuidShaped at h
  rw [Bool.and_eq_true] at h
  simpa using h.1

theorem uuidShaped_no_dot (u : Name) (h : uuidShaped u = true) : '.' ∉ u := by
  intro hm
  rcases uuidShaped_chars u h '.' hm with h1 | h1
  · exact absurd h1 (by decide)
  · exact absurd h1 (by decide)

theorem uuidPart_append_dot (u rest : Name) (h : '.' ∉ u) : uuidPart (u ++ '.' :: rest) = u := by
  induction u with
  | nil => simp [uuidPart]
  | cons a t ih =>
    have ha : a ≠ '.' := fun e => h (e ▸ List.mem_cons_self)
    have ht : '.' ∉ t := fun m => h (List.mem_cons_of_mem _ m)
    rw [List.cons_append, uuidPart, if_neg ha, ih ht]

/-- a name without a dot is its own uuid part -/
theorem uuidPart_no_dot (u : Name) (h : '.' ∉ u) : uuidPart u = u := by
  induction u with
  | nil => rfl
  | cons a t ih =>
    have ha : a ≠ '.' := fun e => h (e ▸ List.mem_cons_self)
    have ht : '.' ∉ t := fun m => h (List.mem_cons_of_mem _ m)
    rw [uuidPart, if_neg ha, ih ht]

/-- the uuid part never contains a dot -/
theorem uuidPart_no_dot' (n : Name) : '.' ∉ uuidPart n := by
  induction n with
  | nil => simp [uuidPart]
  | cons a t ih =>
    rw [uuidPart]
    split
    · simp
    · rename_i ha
      intro hm
      rcases List.mem_cons.mp hm with e | e
      · exact ha e.symm
      · exact ih e

/-- every object file is found under its uuid, whatever the extension (beginning with a dot)
    and the compression -/
theorem discover_own_file (ext : Name) (gz : Bool) (u : Name) (hu : uuidShaped u = true)
    (he : ∃ e, ext = '.' :: e) : discover (fileName ext gz u) = some u := by
  obtain ⟨e, rfl⟩ := he
  have : fileName ('.' :: e) gz u = u ++ '.' :: (e ++ (if gz then ".gz".toList else [])) := by
    unfold fileName
    rw [List.append_assoc, List.cons_append]
  unfold discover
  simp only [this, uuidPart_append_dot u _ (uuidShaped_no_dot u hu), hu, if_true]

/-- two objects never share a file -/
theorem discover_injective (ext : Name) (gz : Bool) (u v : Name) (hu : uuidShaped u = true)
    (hv : uuidShaped v = true) (he : ∃ e, ext = '.' :: e) (h : fileName ext gz u = fileName ext gz v) :
    u = v := by
  have h1 := discover_own_file ext gz u hu he
  have h2 := discover_own_file ext gz v hv he
  rw [h, h2] at h1
  exact (Option.some.inj h1).symm

/-- temporary files (".<name>.tmp") and dot files are never taken for objects -/
theorem discover_dot_prefixed (rest : Name) : discover ('.' :: rest) = none := by
  unfold discover
  simp only [uuidPart, if_true]
  rfl

theorem discover_schema : discover "schema.json".toList = none := by decide

theorem discover_some_shaped (n u : Name) (h : discover n = some u) : uuidShaped u = true ∧ u = uuidPart n := by
  unfold discover at h
  simp only at h
  split at h
  · rename_i hs
    cases h
    exact ⟨hs, rfl⟩
  · cases h

/-- discovery only looks at the part before the first dot: an entry is taken for an object
    exactly when that part has the uuid shape -/
theorem discover_iff (n u : Name) : discover n = some u ↔ (uuidPart n = u ∧ uuidShaped u = true) := by
  constructor
  · intro h
    obtain ⟨h1, h2⟩ := discover_some_shaped n u h
    exact ⟨h2.symm, h1⟩
  · rintro ⟨rfl, hs⟩
    unfold discover
    simp only [hs, if_true]

example : camelToSnake "main.T".toList = "main._t".toList := by decide
example : camelToSnake "TestTest".toList = "test_test".toList := by decide
example : camelToSnake "OneTWOThree".toList = "one_two_three".toList := by decide
example : camelToSnake "One2Three".toList = "one_2_three".toList := by decide
example : camelToSnake "123".toList = "123".toList := by decide

end Sod.Layout

/-! ## Part 1 — C18: the collection directory -/

namespace Sod

/-- with nothing pending the object files are exactly the stored objects -/
theorem one_file_per_object {c : Coll} {l : Loaded} (h : Inv' c l) (hp : c.pending = []) (u : Nat) :
    c.disk.files.has u = true ↔ u ∈ l.index.uuids := by
  rw [h.dom u, view_nopend hp, OMap.has_iff_get?_isSome]

/-- … and the content of a file is the object -/
theorem file_content_is_object {c : Coll} {l : Loaded} (_h : Inv' c l) (hp : c.pending = []) (u : Nat) :
    c.disk.files.get? u = c.view u :=
  (view_nopend hp u).symm

/-- every file is stored under the uuid of the object it contains -/
theorem file_named_by_uuid {c : Coll} {l : Loaded} (h : Inv' c l) {u : Nat} {o : Obj}
    (hf : c.disk.files.get? u = some o) : o.uuid = u :=
  h.keyedF.get? hf

end Sod

/-! ## Part 2 — C19: search arguments -/

namespace Sod

/-! ### a failed search -/

/-- the outcome of `search` is a result without error or `Search.failed e`: nothing in between -/
theorem search_ok_or_failed (E : Env) (c : Coll) (field : String) (op : Option Op) (probe : Leaf) (k : Option FIdx) :
    (Coll.search E c field op probe k).2.err = none ∨ ∃ e, (Coll.search E c field op probe k).2 = Search.failed e := by
  unfold Coll.search
  repeat' (first | split | (simp only []; split))
  all_goals first | exact Or.inl rfl | exact Or.inr ⟨_, rfl⟩

/-- a query that could not be evaluated denotes no object -/
theorem search_failed_no_entries (E : Env) (c : Coll) (field : String) (op : Option Op) (probe : Leaf) (k : Option FIdx) :
    (Coll.search E c field op probe k).2.err ≠ none → (Coll.search E c field op probe k).2.fields = [] := by
  intro hne
  rcases search_ok_or_failed E c field op probe k with h | ⟨e, h⟩
  · exact absurd h hne
  · rw [h]; rfl

/-- … and its limit is 0 -/
theorem search_failed_limit (E : Env) (c : Coll) (field : String) (op : Option Op) (probe : Leaf) (k : Option FIdx) :
    (Coll.search E c field op probe k).2.err ≠ none → (Coll.search E c field op probe k).2.limit = 0 := by
  intro hne
  rcases search_ok_or_failed E c field op probe k with h | ⟨e, h⟩
  · exact absurd h hne
  · rw [h]; rfl

theorem failed_collect (c : Coll) (s : Search) (e : Err) (h : s.err = some e) : Coll.collect c s = (c, s, [], some e) := by
  unfold Coll.collect
  rw [h]

theorem failed_one (c : Coll) (s : Search) (e : Err) (h : s.err = some e) :
    (Coll.one c s).2.2 = .err e ∧ (Coll.one c s).1 = c := by
  unfold Coll.one
  rw [h]
  exact ⟨rfl, rfl⟩

theorem failed_searchDelete (c : Coll) (s : Search) (e : Err) (h : s.err = some e) : Coll.searchDelete c s = (c, .err e) := by
  unfold Coll.searchDelete
  rw [h]

theorem failed_and_or (E : Env) (c : Coll) (s : Search) (field : String) (op : Option Op) (probe : Leaf) (e : Err)
    (h : s.err = some e) :
    Coll.searchAnd E c s field op probe = (c, s) ∧ Coll.searchOr E c s field op probe = (c, s) := by
  unfold Coll.searchAnd Coll.searchOr
  rw [h]
  exact ⟨rfl, rfl⟩

/-! ### refused arguments -/

/-- an operator outside the seven known ones is refused in every state of the handle: no
    path of `search` evaluates a query without an operator -/
theorem unknown_operator_any (E : Env) (c : Coll) (field : String) (probe : Leaf) (k : Option FIdx) :
    ∃ e, (Coll.search E c field none probe k).2 = Search.failed e := by
  unfold Coll.search
  repeat' (first | split | (simp only []; split))
  all_goals first | exact ⟨_, rfl⟩ | contradiction

/-- an operator outside the seven known ones is always refused (field indexed or not,
    collection empty or not) -/
theorem unknown_operator (E : Env) {c : Coll} {l : Loaded} (_h : Inv' c l) (field : String) (probe : Leaf)
    (k : Option FIdx) : (Coll.search E c field none probe k).2.err ≠ none := by
  obtain ⟨e, he⟩ := unknown_operator_any E c field probe k
  rw [he]
  exact fun h => nomatch h

/-- on a loaded collection whose field and probe are acceptable, the refusal is `unknownOp` -/
theorem unknown_operator_indexed (E : Env) {c : Coll} {l : Loaded} (h : Inv' c l) {field : String} {fi : FieldIdx}
    (hi : l.index.field? field = some fi) (hr : pathResolvable c.live field = true)
    {probe : Leaf} {pv : Val} (hp : E.prepare l.descs field probe = .v pv) (ht : pv.tag = fi.cast) (k : Option FIdx) :
    Coll.search E c field none probe k = (c, Search.failed .unknownOp) := by
  unfold Coll.search
  rw [schema_of_inv h.toInv]
  simp [hr, hp, hi, ht]

theorem mistyped_probe_indexed (E : Env) {c : Coll} {l : Loaded} (h : Inv' c l) {field : String} {fi : FieldIdx}
    (hi : l.index.field? field = some fi) (hr : pathResolvable c.live field = true)
    {probe : Leaf} {pv : Val} (hp : E.prepare l.descs field probe = .v pv) (ht : pv.tag ≠ fi.cast)
    (op : Option Op) (k : Option FIdx) : (Coll.search E c field op probe k).2.err = some .cast := by
  have hne : (fi.cast != pv.tag) = true := by
    rw [bne_iff_ne]; exact fun e => ht e.symm
  unfold Coll.search
  rw [schema_of_inv h.toInv]
  simp only [hr, hp, hi, hne, Bool.not_true, Bool.false_eq_true, if_false, if_true]
  rfl

/-- the cast error does not depend on whether the collection is empty -/
theorem mistyped_probe_unindexed (E : Env) {c : Coll} {l : Loaded} (h : Inv' c l) {field : String} {pos : Nat}
    {d : FieldDesc} (hi : l.index.field? field = none) (hr : pathResolvable c.live field = true)
    (hd : descPos? l.descs field = some (pos, d)) {t : Tag} (hc : d.cast = some t)
    {probe : Leaf} {pv : Val} (hp : E.prepare l.descs field probe = .v pv) (ht : t ≠ pv.tag)
    (op : Option Op) (k : Option FIdx) : (Coll.search E c field op probe k).2.err = some .cast := by
  have hne : (t != pv.tag) = true := by
    rw [bne_iff_ne]; exact ht
  unfold Coll.search
  rw [schema_of_inv h.toInv]
  simp only [hr, hp, hi, hd, hc, hne, Bool.not_true, Bool.false_eq_true, if_false, if_true]
  rfl

/-- a pattern that does not compile is refused on an indexed string field … -/
theorem invalid_pattern_indexed (E : Env) {c : Coll} {l : Loaded} (h : Inv' c l) {field : String} {fi : FieldIdx}
    (hi : l.index.field? field = some fi) (hr : pathResolvable c.live field = true) (hcast : fi.cast = .str)
    {probe : Leaf} {s : Bytes} (hp : E.prepare l.descs field probe = .v (.str s)) (hs : E.compile s = none)
    (k : Option FIdx) : (Coll.search E c field (some .re) probe k).2.err = some .pattern := by
  have hne : (fi.cast != (Val.str s).tag) = false := by
    rw [hcast]; rfl
  unfold Coll.search
  rw [schema_of_inv h.toInv]
  simp only [hr, hp, hi, hne, hs, ObjIndex.searchOp, Bool.not_true, Bool.false_eq_true, if_false]
  rfl

/-- … and on an unindexed one, whatever the collection contains -/
theorem invalid_pattern_unindexed (E : Env) {c : Coll} {l : Loaded} (h : Inv' c l) {field : String} {pos : Nat}
    {d : FieldDesc} (hi : l.index.field? field = none) (hr : pathResolvable c.live field = true)
    (hd : descPos? l.descs field = some (pos, d)) (hc : d.cast = some .str)
    {probe : Leaf} {s : Bytes} (hp : E.prepare l.descs field probe = .v (.str s)) (hs : E.compile s = none)
    (k : Option FIdx) : (Coll.search E c field (some .re) probe k).2.err = some .pattern := by
  have hne : (Tag.str != (Val.str s).tag) = false := rfl
  unfold Coll.search
  rw [schema_of_inv h.toInv]
  simp only [hr, hp, hi, hd, hc, hne, hs, Bool.not_true, Bool.false_eq_true, if_false]
  rfl

theorem invalid_pattern (E : Env) {c : Coll} {l : Loaded} (h : Inv' c l) {field : String}
    (hr : pathResolvable c.live field = true)
    {probe : Leaf} {s : Bytes} (hp : E.prepare l.descs field probe = .v (.str s)) (hs : E.compile s = none)
    (hkind : (∃ fi, l.index.field? field = some fi ∧ fi.cast = .str) ∨
             (l.index.field? field = none ∧ ∃ pos d, descPos? l.descs field = some (pos, d) ∧ d.cast = some .str))
    (k : Option FIdx) : (Coll.search E c field (some .re) probe k).2.err = some .pattern := by
  rcases hkind with ⟨fi, hi, hcast⟩ | ⟨hi, pos, d, hd, hc⟩
  · exact invalid_pattern_indexed E h hi hr hcast hp hs k
  · exact invalid_pattern_unindexed E h hi hr hd hc hp hs k

/-! ### the error classes of a search -/

/-- a successful schema access leaves the schema cached in the handle -/
theorem schema_ok_mem {c c' : Coll} {l : Loaded} (h : c.schema = (c', .ok l)) : c'.mem = some l := by
  unfold Coll.schema at h
  repeat' (first | split at h | (simp only [] at h; split at h))
  all_goals first | (cases h; rfl) | (simp only [Prod.mk.injEq, reduceCtorEq, and_false] at h)

/-- with a cached schema the access always succeeds -/
theorem schema_of_memL {c : Coll} {l0 : Loaded} (h : c.mem = some l0) :
    c.schema = ({ c with mem := some (startFlusher l0) }, .ok (startFlusher l0)) := by
  unfold Coll.schema
  rw [h]

/-- `get`, in ANY state of the handle: the object, `notFound`, or the error of the schema access -/
theorem get_err_classes (c : Coll) (u : Nat) (e : Err) (h : (c.get u).2 = .err e) :
    e = .notFound ∨ (c.schema).2 = .err e := by
  unfold Coll.get at h
  rcases hs : c.schema with ⟨c', r⟩
  rw [hs] at h
  cases r with
  | err e' => simp only [] at h; cases h; exact Or.inr rfl
  | panic => cases h
  | ok l =>
    simp only [] at h
    repeat' split at h
    all_goals (cases h <;> exact Or.inl rfl)

/-- `get` never panics -/
theorem get_no_panic (c : Coll) (u : Nat) (hs : (c.schema).2 ≠ .panic) : (c.get u).2 ≠ .panic := by
  unfold Coll.get
  rcases hsc : c.schema with ⟨c', r⟩
  rw [hsc] at hs
  cases r with
  | err e' => exact fun h => nomatch h
  | panic => exact absurd rfl hs
  | ok l =>
    simp only []
    repeat' split
    all_goals exact fun h => nomatch h

/-- `get` keeps the schema cached -/
theorem get_mem_isSome {c : Coll} (hm : c.mem.isSome = true) (u : Nat) : (c.get u).1.mem.isSome = true := by
  obtain ⟨l0, hl⟩ := Option.isSome_iff_exists.mp hm
  unfold Coll.get
  rw [schema_of_memL hl]
  simp only []
  repeat' split
  all_goals rfl

/-- with a cached schema `get` answers the object or `notFound` -/
theorem get_of_mem {c : Coll} (hm : c.mem.isSome = true) (u : Nat) :
    (∃ o, (c.get u).2 = .ok o) ∨ (c.get u).2 = .err .notFound := by
  obtain ⟨l0, hl⟩ := Option.isSome_iff_exists.mp hm
  rcases hg : (c.get u).2 with o | e | _
  · exact Or.inl ⟨o, rfl⟩
  · rcases get_err_classes c u e hg with rfl | h2
    · exact Or.inr rfl
    · rw [schema_of_memL hl] at h2; cases h2
  · exact absurd hg (get_no_panic c u (by rw [schema_of_memL hl]; exact fun h => nomatch h))

theorem searchOp_err {m : Option Matcher} {op : Op} {l : FIdx} {v : Val} {e : Err}
    (h : ObjIndex.searchOp m op l v = .err e) : e = .pattern := by
  unfold ObjIndex.searchOp at h
  repeat' split at h
  all_goals (cases h <;> rfl)

/-- the scan of an unindexed search fails with `corrupted` (an object the index does not know),
    `keyType` (an opaque value) or `notFound` (an object that cannot be read) -/
theorem scan_err_classes (l : Loaded) (m : Matcher) (op : Op) (pos : Nat) (probe : Val) :
    ∀ (us : List Nat) {c : Coll} (acc : FIdx) {c' : Coll} {r : FIdx} {e : Err}, c.mem.isSome = true →
      Coll.scan c l m op pos probe us acc = (c', r, some e) →
      e = .corrupted ∨ e = .keyType ∨ e = .notFound := by
  intro us
  induction us with
  | nil =>
    intro c acc c' r e _ h
    rw [Coll.scan] at h
    cases h
  | cons u us ih =>
    intro c acc c' r e hm h
    rw [Coll.scan] at h
    have hm1 := get_mem_isSome hm u
    rcases get_of_mem hm u with ⟨o, hg⟩ | hg
    · have hg' : c.get u = ((c.get u).1, Res.ok o) := Prod.ext rfl hg
      rw [hg'] at h
      simp only [] at h
      repeat' split at h
      all_goals first | exact ih _ hm1 h | (cases h; simp)
    · have hg' : c.get u = ((c.get u).1, Res.err .notFound) := Prod.ext rfl hg
      rw [hg'] at h
      cases h
      exact Or.inr (Or.inr rfl)

/-- the error of a search is one of the documented classes: unknown field, key type, cast,
    unknown operator, pattern, corrupted index, an object that cannot be read, or the error of
    the schema access itself (`other` stands for a panic of the schema access) -/
theorem search_err_classes (E : Env) (c : Coll) (field : String) (op : Option Op) (probe : Leaf) (k : Option FIdx) :
    ∀ e, (Coll.search E c field op probe k).2.err = some e →
      e = .unknownField ∨ e = .keyType ∨ e = .cast ∨ e = .unknownOp ∨ e = .pattern ∨ e = .corrupted ∨
      e = .notFound ∨ e = .other ∨ (∃ e', (c.schema).2 = .err e' ∧ e = e') := by
  intro e he
  unfold Coll.search at he
  rcases hs : c.schema with ⟨c', r⟩
  rw [hs] at he
  cases r with
  | err e' =>
    have : e' = e := by simpa [Search.failed] using he
    simp [this]
  | panic =>
    have : Err.other = e := by simpa [Search.failed] using he
    simp [← this]
  | ok l =>
    have hm : c'.mem.isSome = true := by rw [schema_ok_mem hs]; rfl
    simp only [] at he
    repeat' (first | split at he | (simp only [] at he; split at he))
    all_goals first
      | (simp [Search.failed] at he <;> (subst he; simp); done)
      | (have h1 := searchOp_err ‹ObjIndex.searchOp _ _ _ _ = Res.err _›
         simp [Search.failed] at he; subst he; subst h1; simp; done)
      | (have h1 := scan_err_classes _ _ _ _ _ _ _ hm ‹Coll.scan _ _ _ _ _ _ _ _ = _›
         simp [Search.failed] at he; subst he
         rcases h1 with h1 | h1 | h1 <;> simp [h1])

/-! ### the closed list: the schema access never panics and has three error classes -/

theorem controlLoaded_casesL (live : List (String × String)) (d : Disk) (l : Loaded) :
    controlLoaded live d l = .ok () ∨ controlLoaded live d l = .err .structChanged ∨
    controlLoaded live d l = .err .corrupted := by
  unfold controlLoaded
  repeat' split
  all_goals simp

theorem schema_cases (c : Coll) :
    (∃ l, (c.schema).2 = .ok l) ∨ (c.schema).2 = .err .notFound ∨ (c.schema).2 = .err .structChanged ∨
    (c.schema).2 = .err .corrupted := by
  unfold Coll.schema
  split
  · exact Or.inl ⟨_, rfl⟩
  · split
    · exact Or.inr (Or.inl rfl)
    · rename_i img _
      rcases controlLoaded_casesL c.live c.disk
          { descs := img.descs, settings := img.settings, index := img.index.reload } with h | h | h
      all_goals (simp only []; rw [h]; simp)

theorem schema_no_panic (c : Coll) : (c.schema).2 ≠ .panic := by
  rcases schema_cases c with ⟨l, h⟩ | h | h | h <;> (rw [h]; exact fun h => nomatch h)

/-- the closed list of the errors of a search, in any state of the handle and for any arguments:
    `other` (a panic) never happens -/
theorem search_err_closed (E : Env) (c : Coll) (field : String) (op : Option Op) (probe : Leaf) (k : Option FIdx)
    (e : Err) (he : (Coll.search E c field op probe k).2.err = some e) :
    e = .unknownField ∨ e = .keyType ∨ e = .cast ∨ e = .unknownOp ∨ e = .pattern ∨ e = .corrupted ∨
    e = .notFound ∨ e = .structChanged := by
  have hcl : ∀ e', (c.schema).2 = .err e' → e' = .notFound ∨ e' = .structChanged ∨ e' = .corrupted := by
    intro e' h'
    rcases schema_cases c with ⟨l, h⟩ | h | h | h <;> rw [h] at h' <;> cases h' <;> simp
  have hnp := schema_no_panic c
  unfold Coll.search at he
  rcases hs : c.schema with ⟨c', r⟩
  rw [hs] at he hcl hnp
  cases r with
  | err e' =>
    have : e' = e := by simpa [Search.failed] using he
    subst this
    rcases hcl e' rfl with h | h | h <;> simp [h]
  | panic => exact absurd rfl hnp
  | ok l =>
    have hm : c'.mem.isSome = true := by rw [schema_ok_mem hs]; rfl
    simp only [] at he
    repeat' (first | split at he | (simp only [] at he; split at he))
    all_goals first
      | (simp [Search.failed] at he <;> (subst he; simp); done)
      | (have h1 := searchOp_err ‹ObjIndex.searchOp _ _ _ _ = Res.err _›
         simp [Search.failed] at he; subst he; subst h1; simp; done)
      | (have h1 := scan_err_classes _ _ _ _ _ _ _ hm ‹Coll.scan _ _ _ _ _ _ _ _ = _›
         simp [Search.failed] at he; subst he
         rcases h1 with h1 | h1 | h1 <;> simp [h1]; done)
      | (exfalso
         have h1 := ‹ObjIndex.searchOp _ _ _ _ = Res.panic›
         unfold ObjIndex.searchOp at h1
         repeat' split at h1
         all_goals cases h1)

end Sod
