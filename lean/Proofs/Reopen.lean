/-
  Reopen.lean — durability (C04), control / repair (C11) and crash points (C05).

  * C04: in synchronous mode every accepted mutation ends with a commit (`insert_synced`,
    `delete_synced`); a synced directory passes `Control` (`control_ok_of_inv`); a new handle
    on a synced directory denotes the same objects (`reopen_spec`); `Close` flushes and commits
    (`close_synced`, `close_view`).
  * C11: `controlLoaded_iff` / `controlLoaded_corrupted_iff` (the task's `control_iff`; the name
    `Sod.control_iff` is already taken by Proofs/FieldIndex.lean), `repairDrop_spec`,
    `repairAdd_spec`, `repair_no_fs`, `repair_converges`, `repair_rebuild`.
  * C05: the log delta of a synchronous insert / delete and the status of every crash point.
-/
import Proofs.Crud
namespace Sod

/-! ### 0. association lists: keys, has -/

namespace OMap

theorem mem_keys_iff_has (m : OMap) (u : Nat) : u ∈ m.keys ↔ m.has u = true := by
  unfold OMap.keys OMap.has
  rw [List.mem_map, List.any_eq_true]
  constructor
  · rintro ⟨p, hp, rfl⟩; exact ⟨p, hp, by simp⟩
  · rintro ⟨p, hp, he⟩; exact ⟨p, hp, by simpa using he⟩

theorem has_eq_true_iff (m : OMap) (u : Nat) : m.has u = true ↔ ∃ o, m.get? u = some o := by
  rw [has_iff_get?_isSome, Option.isSome_iff_exists]

theorem has_eq_false_iff (m : OMap) (u : Nat) : m.has u = false ↔ m.get? u = none := by
  rw [has_iff_get?_isSome]
  cases m.get? u <;> simp

theorem has_put (m : OMap) (o : Obj) (w : Nat) : (m.put o).has w = (decide (w = o.uuid) || m.has w) := by
  rw [has_iff_get?_isSome, has_iff_get?_isSome, get?_put]
  by_cases h : w = o.uuid <;> simp [h]

theorem has_erase (m : OMap) (u w : Nat) : (m.erase u).has w = (!decide (w = u) && m.has w) := by
  rw [has_iff_get?_isSome, has_iff_get?_isSome, get?_erase]
  by_cases h : w = u <;> simp [h]

/-- writing a list of keyed objects with distinct keys over a map: the written value wins -/
theorem get?_foldl_put (ps : OMap) : ∀ (m : OMap), ps.Keyed → ps.keys.Nodup → ∀ u,
    (ps.foldl (fun m p => m.put p.2) m).get? u =
      match ps.get? u with | some o => some o | none => m.get? u := by
  induction ps with
  | nil => intro m _ _ u; rfl
  | cons p t ih =>
    intro m hk hn u
    have hk' : OMap.Keyed t := fun q hq => hk q (List.mem_cons_of_mem _ hq)
    have hpk : p.2.uuid = p.1 := hk p List.mem_cons_self
    unfold OMap.keys at hn
    rw [List.map_cons, List.nodup_cons] at hn
    rw [List.foldl_cons, ih (m.put p.2) hk' hn.2 u, get?_cons, get?_put, hpk]
    by_cases h : p.1 = u
    · have ht : OMap.get? t u = none := by
        rw [get?_eq_none_iff]
        intro q hq hqu
        exact hn.1 (List.mem_map.mpr ⟨q, hq, hqu.trans h.symm⟩)
      rw [if_pos h, ht, if_pos h.symm]
    · have h' : ¬ u = p.1 := fun e => h e.symm
      rw [if_neg h, if_neg h']

theorem keys_erase (m : OMap) (u : Nat) : (m.erase u).keys = m.keys.filter (· != u) := by
  unfold OMap.keys OMap.erase
  rw [List.filter_map]; rfl

theorem keys_put (m : OMap) (o : Obj) : (m.put o).keys = m.keys.filter (· != o.uuid) ++ [o.uuid] := by
  unfold OMap.put
  show List.map _ (_ ++ _) = _
  rw [List.map_append]
  show (m.erase o.uuid).keys ++ _ = _
  rw [keys_erase]; rfl

/-- distinct keys are preserved by the two updates of a map -/
theorem keys_nodup_eraseR {m : OMap} (h : m.keys.Nodup) (u : Nat) : (m.erase u).keys.Nodup := by
  rw [keys_erase]; exact h.filter _

theorem keys_nodup_putR {m : OMap} (h : m.keys.Nodup) (o : Obj) : (m.put o).keys.Nodup := by
  rw [keys_put, List.nodup_append]
  refine ⟨h.filter _, by simp, ?_⟩
  intro a ha b hb hab
  rw [List.mem_singleton] at hb
  subst hab; subst hb
  simp at ha

end OMap

/-! ### 1. projections of `fs`, `commit`, `schema`, `get` -/

theorem fs_mkdir_of_dir {c : Coll} (h : c.disk.dir = true) : c.fs .mkdir = c := by
  unfold Coll.fs; rw [h]

theorem fs_mkdir_schema (c : Coll) : (c.fs .mkdir).disk.schema = c.disk.schema := by
  unfold Coll.fs; split <;> rfl

theorem fs_mkdir_dir (c : Coll) : (c.fs .mkdir).disk.dir = true := by
  unfold Coll.fs
  split
  · assumption
  · rfl

@[simp] theorem fs_writeObj_schema (c : Coll) (o : Obj) : (c.fs (.writeObj o)).disk.schema = c.disk.schema := rfl
@[simp] theorem fs_writeObj_dir (c : Coll) (o : Obj) : (c.fs (.writeObj o)).disk.dir = true := rfl
@[simp] theorem fs_rmObj_schema (c : Coll) (u : Nat) : (c.fs (.rmObj u)).disk.schema = c.disk.schema := rfl
@[simp] theorem fs_rmObj_dir (c : Coll) (u : Nat) : (c.fs (.rmObj u)).disk.dir = c.disk.dir := rfl
@[simp] theorem fs_writeObj_disk (c : Coll) (o : Obj) : (c.fs (.writeObj o)).disk = c.disk.apply (.writeObj o) := rfl
@[simp] theorem fs_writeObj_log (c : Coll) (o : Obj) : (c.fs (.writeObj o)).log = c.log ++ [.writeObj o] := rfl
@[simp] theorem fs_rmObj_disk (c : Coll) (u : Nat) : (c.fs (.rmObj u)).disk = c.disk.apply (.rmObj u) := rfl
@[simp] theorem fs_rmObj_log (c : Coll) (u : Nat) : (c.fs (.rmObj u)).log = c.log ++ [.rmObj u] := rfl
@[simp] theorem fs_writeSchema_disk (c : Coll) (i : SchemaImg) :
    (c.fs (.writeSchema i)).disk = c.disk.apply (.writeSchema i) := rfl
@[simp] theorem fs_writeSchema_log (c : Coll) (i : SchemaImg) :
    (c.fs (.writeSchema i)).log = c.log ++ [.writeSchema i] := rfl

@[simp] theorem commit_live (c : Coll) (l : Loaded) : (c.commit l).live = c.live := by simp [Coll.commit]

@[simp] theorem commit_schema (c : Coll) (l : Loaded) : (c.commit l).disk.schema = some l.img := rfl

@[simp] theorem commit_dir (c : Coll) (l : Loaded) : (c.commit l).disk.dir = true := rfl

theorem commit_of_dir {c : Coll} (l : Loaded) (h : c.disk.dir = true) :
    (c.commit l).disk = c.disk.apply (.writeSchema l.img) ∧ (c.commit l).log = c.log ++ [.writeSchema l.img] := by
  unfold Coll.commit
  rw [fs_mkdir_of_dir h]
  exact ⟨rfl, rfl⟩

/-! ### 2. C11: what `Control` answers -/

/-- the directory holds exactly what the loaded schema says: `schema.json` is the image of the
    loaded schema, the directory exists and nothing is pending -/
def Synced (c : Coll) (l : Loaded) : Prop := c.disk.schema = some l.img ∧ c.disk.dir = true ∧ c.pending = []

/-- the Go struct did not change shape w.r.t. the stored descriptors -/
def ShapeOk (c : Coll) (l : Loaded) : Prop := descsCompatFields l.descs c.live = true

theorem any_not_contains_eq_false (a b : List Nat) :
    a.any (fun u => !(b.contains u)) = false ↔ ∀ u, u ∈ a → u ∈ b := by
  rw [List.any_eq_false]
  constructor
  · intro h u hu; simpa using h u hu
  · intro h u hu; simpa using h u hu

theorem any_not_has_eq_false (a : List Nat) (m : OMap) :
    a.any (fun u => !(m.has u)) = false ↔ ∀ u, u ∈ a → m.has u = true := by
  rw [List.any_eq_false]
  constructor
  · intro h u hu; simpa using h u hu
  · intro h u hu; simpa using h u hu

/-- C11 (the task's `control_iff`): `Control` answers ok iff the struct has the stored shape, the index
    is internally consistent, every file is indexed and every indexed object has its file -/
theorem controlLoaded_iff (live : List (String × String)) (d : Disk) (l : Loaded) :
    controlLoaded live d l = .ok () ↔
      descsCompatFields l.descs live = true ∧ l.index.control = true ∧
      (∀ u, u ∈ d.files.keys → u ∈ l.index.uuids) ∧ (∀ u, u ∈ l.index.uuids → d.files.has u = true) := by
  rw [← any_not_contains_eq_false, ← any_not_has_eq_false]
  unfold controlLoaded
  cases descsCompatFields l.descs live <;> cases l.index.control <;>
    cases d.files.keys.any (fun u => !(l.index.uuids.contains u)) <;>
    cases l.index.uuids.any (fun u => !(d.files.has u)) <;> simp

/-- once the shape is right, the only error `Control` can answer is `corrupted`, and it does so
    exactly when the index and the files differ (or the index is internally inconsistent) -/
theorem controlLoaded_corrupted_iff (live : List (String × String)) (d : Disk) (l : Loaded) :
    controlLoaded live d l = .err .corrupted ↔
      descsCompatFields l.descs live = true ∧
      ¬ (l.index.control = true ∧ (∀ u, u ∈ d.files.keys → u ∈ l.index.uuids) ∧
         (∀ u, u ∈ l.index.uuids → d.files.has u = true)) := by
  rw [← any_not_contains_eq_false, ← any_not_has_eq_false]
  unfold controlLoaded
  cases descsCompatFields l.descs live <;> cases l.index.control <;>
    cases d.files.keys.any (fun u => !(l.index.uuids.contains u)) <;>
    cases l.index.uuids.any (fun u => !(d.files.has u)) <;> simp

/-- no third answer: ok, corrupted, or (shape changed) structChanged; never a panic -/
theorem controlLoaded_cases (live : List (String × String)) (d : Disk) (l : Loaded) :
    controlLoaded live d l = .ok () ∨ controlLoaded live d l = .err .corrupted ∨
    (controlLoaded live d l = .err .structChanged ∧ descsCompatFields l.descs live = false) := by
  unfold controlLoaded
  cases descsCompatFields l.descs live <;> cases l.index.control <;>
    cases d.files.keys.any (fun u => !(l.index.uuids.contains u)) <;>
    cases l.index.uuids.any (fun u => !(d.files.has u)) <;> simp

/-- `DB.Control()` on a loaded handle -/
theorem Coll.control_iff {c : Coll} {l : Loaded} (hm : c.mem = some l) :
    c.control = .ok () ↔
      descsCompatFields l.descs c.live = true ∧ l.index.control = true ∧
      (∀ u, u ∈ c.disk.files.keys → u ∈ l.index.uuids) ∧ (∀ u, u ∈ l.index.uuids → c.disk.files.has u = true) := by
  unfold Coll.control
  rw [hm]
  exact controlLoaded_iff _ _ _

/-- a well-formed index whose uuids are exactly the uuids of the files passes `Control` -/
theorem control_ok_of {live : List (String × String)} {d : Disk} {l : Loaded}
    (hshape : descsCompatFields l.descs live = true) (hwf : l.index.WF)
    (hdom : ∀ u, u ∈ l.index.uuids ↔ (d.files.get? u).isSome = true) : controlLoaded live d l = .ok () := by
  rw [controlLoaded_iff]
  refine ⟨hshape, control_of_wf hwf, ?_, ?_⟩
  · intro u hu
    rw [OMap.mem_keys_iff_has, OMap.has_iff_get?_isSome] at hu
    exact (hdom u).mpr hu
  · intro u hu
    rw [OMap.has_iff_get?_isSome]
    exact (hdom u).mp hu

theorem control_ok_of_inv {c : Coll} {l : Loaded} (h : Inv' c l) (hp : c.pending = []) (hk : ShapeOk c l) :
    controlLoaded c.live c.disk l = .ok () := by
  apply control_ok_of hk h.wf
  intro u
  rw [h.dom u, view_nopend hp]

/-! ### 3. C04: synchronous mode — every completed call has committed -/

theorem commit_proj {c : Coll} (l : Loaded) (h : c.disk.dir = true) :
    (c.commit l).disk = c.disk.apply (.writeSchema l.img) ∧ (c.commit l).log = c.log ++ [.writeSchema l.img] ∧
    (c.commit l).mem = c.mem ∧ (c.commit l).pending = c.pending ∧ (c.commit l).live = c.live :=
  ⟨(commit_of_dir l h).1, (commit_of_dir l h).2, commit_mem c l, commit_pending c l, commit_live c l⟩

/-- the state an accepted synchronous insert builds, when the directory exists: two directory mutations -/
theorem insState_sync {c : Coll} {l : Loaded} {o : Obj} {ix' : ObjIndex} (ha : l.settings.async = none)
    (hd : c.disk.dir = true) :
    (insState c l o ix' true).disk =
      (c.disk.apply (.writeObj o)).apply (.writeSchema ({ l with index := ix' } : Loaded).img) ∧
    (insState c l o ix' true).log = c.log ++ [.writeObj o, .writeSchema ({ l with index := ix' } : Loaded).img] ∧
    (insState c l o ix' true).mem = some { l with index := ix' } ∧
    (insState c l o ix' true).pending = c.pending ∧ (insState c l o ix' true).live = c.live := by
  unfold insState
  simp only [ha, fs_mkdir_of_dir hd, Option.isSome_none, Bool.false_eq_true, if_false, Bool.not_false,
    Bool.and_self, if_true]
  split
  · obtain ⟨h1, h2, h3, h4, h5⟩ := commit_proj (c := { (c.fs (.writeObj o)).setMem { l with index := ix' } with
      cache := ((c.fs (.writeObj o)).setMem { l with index := ix' }).cache.put o }) { l with index := ix' } rfl
    rw [h1, h2, h3, h4, h5]
    simp [Coll.setMem]
  · obtain ⟨h1, h2, h3, h4, h5⟩ := commit_proj (c := (c.fs (.writeObj o)).setMem { l with index := ix' })
      { l with index := ix' } rfl
    rw [h1, h2, h3, h4, h5]
    simp [Coll.setMem]

/-- the object `InsertOrUpdate` stores: transformed, canonicalised, identified -/
def storedObj (E : Env) (l : Loaded) (o : Obj) (fresh : Nat) : Obj :=
  assignNew (E.canon l.descs (E.transform o)) fresh

/-- the directory mutations of a delete -/
def delOps (c : Coll) (l : Loaded) (u : Nat) : List FsOp :=
  if c.disk.files.has u then [.rmObj u, .writeSchema ({ l with index := l.index.deleteByUUID u } : Loaded).img]
  else [.writeSchema ({ l with index := l.index.deleteByUUID u } : Loaded).img]

theorem delState_sync {c : Coll} {l : Loaded} {u : Nat} (hd : c.disk.dir = true) :
    (delState c l u).disk = c.disk.applyAll (delOps c l u) ∧ (delState c l u).log = c.log ++ delOps c l u ∧
    (delState c l u).live = c.live := by
  unfold delState delOps
  cases hmc : l.settings.mustCache <;> cases hh : c.disk.files.has u <;>
    simp only [Bool.false_eq_true, if_false, if_true, setMem_disk, hh]
  · obtain ⟨h1, h2, _, _, h5⟩ := commit_proj (c := c.setMem { l with index := l.index.deleteByUUID u })
      { l with index := l.index.deleteByUUID u } hd
    rw [h1, h2, h5]; exact ⟨rfl, rfl, rfl⟩
  · obtain ⟨h1, h2, _, _, h5⟩ := commit_proj (c := (c.setMem { l with index := l.index.deleteByUUID u }).fs (.rmObj u))
      { l with index := l.index.deleteByUUID u } hd
    rw [h1, h2, h5]
    refine ⟨rfl, ?_, rfl⟩
    simp
  · obtain ⟨h1, h2, _, _, h5⟩ := commit_proj
      (c := ({ c with cache := c.cache.erase u, pending := c.pending.erase u } : Coll).setMem
        { l with index := l.index.deleteByUUID u })
      { l with index := l.index.deleteByUUID u } hd
    rw [h1, h2, h5]; exact ⟨rfl, rfl, rfl⟩
  · obtain ⟨h1, h2, _, _, h5⟩ := commit_proj
      (c := (({ c with cache := c.cache.erase u, pending := c.pending.erase u } : Coll).setMem
        { l with index := l.index.deleteByUUID u }).fs (.rmObj u))
      { l with index := l.index.deleteByUUID u } hd
    rw [h1, h2, h5]
    refine ⟨rfl, ?_, rfl⟩
    simp

/-- everything an accepted synchronous `InsertOrUpdate` does (the directory exists: true of any handle
    that has been created or reopened) -/
theorem insert_sync_spec {E : Env} {c : Coll} {l : Loaded} (h : Inv' c l) (hd : c.disk.dir = true)
    (ha : l.settings.async = none) (o : Obj) (fresh : Nat) (ht : (storedObj E l o fresh).Typed l.index)
    (hr : (c.insert E o fresh).2 = .ok ()) :
    ∃ ix', l.index.insertOrUpdate (storedObj E l o fresh) = .ok ix' ∧
      Inv' (c.insert E o fresh).1 { l with index := ix' } ∧
      Synced (c.insert E o fresh).1 { l with index := ix' } ∧
      (c.insert E o fresh).1.view = updView c.view (storedObj E l o fresh).uuid (some (storedObj E l o fresh)) ∧
      (c.insert E o fresh).1.log =
        c.log ++ [.writeObj (storedObj E l o fresh), .writeSchema ({ l with index := ix' } : Loaded).img] ∧
      (c.insert E o fresh).1.disk =
        c.disk.applyAll [.writeObj (storedObj E l o fresh), .writeSchema ({ l with index := ix' } : Loaded).img] ∧
      (c.insert E o fresh).1.live = c.live := by
  unfold storedObj at ht ⊢
  rcases insert_cases h.toInv o fresh ht with ⟨_, hi⟩ | ⟨_, _, hi⟩ | ⟨_, _, _, hi⟩ | ⟨_, hser, hu, hi⟩
  · rw [hi] at hr; cases hr
  · rw [hi] at hr; cases hr
  · rw [hi] at hr; cases hr
  · have hix := insertOrUpdate_of_ok ht.hasVal hu
    refine ⟨_, hix, ?_⟩
    have he := insertCore_eq (E := E) (c := c) true hser hu hix
    obtain ⟨c', l', h1, h2, h3, _⟩ := insertCore_accept' (E := E) true h ht hser hu
    rw [he] at h1
    injection h1 with h1a h1b
    injection h1b with h1b
    subst h1a; subst h1b
    rw [hi, he]
    obtain ⟨p1, p2, p3, p4, p5⟩ := insState_sync (c := c) (l := l) (o := assignNew (E.canon l.descs (E.transform o)) fresh) (ix' := _) ha hd
    refine ⟨h2, ⟨?_, ?_, ?_⟩, h3, p2, p1, p5⟩
    · show (insState c l _ _ true).disk.schema = _
      rw [p1]; rfl
    · show (insState c l _ _ true).disk.dir = _
      rw [p1]; rfl
    · show (insState c l _ _ true).pending = _
      rw [p4]; exact h.syncNoPend ha

/-- C04: an accepted synchronous insert has committed when it returns -/
theorem insert_synced {E : Env} {c : Coll} {l : Loaded} (h : Inv' c l) (hs : Synced c l)
    (ha : l.settings.async = none) (o : Obj) (fresh : Nat)
    (ht : (assignNew (E.canon l.descs (E.transform o)) fresh).Typed l.index)
    (hr : (c.insert E o fresh).2 = .ok ()) :
    ∃ l', Inv' (c.insert E o fresh).1 l' ∧ Synced (c.insert E o fresh).1 l' := by
  obtain ⟨ix', _, h1, h2, _⟩ := insert_sync_spec h hs.2.1 ha o fresh ht hr
  exact ⟨_, h1, h2⟩

/-- a rejected insert leaves a synced handle synced (nothing was touched) -/
theorem insert_rejected_synced {E : Env} {c : Coll} {l : Loaded} (h : Inv' c l) (hs : Synced c l)
    (o : Obj) (fresh : Nat) (ht : (assignNew (E.canon l.descs (E.transform o)) fresh).Typed l.index) (e : Err)
    (hr : (c.insert E o fresh).2 = .err e) :
    Inv' (c.insert E o fresh).1 l ∧ Synced (c.insert E o fresh).1 l := by
  rw [insert_rejected_frame h.toInv o fresh ht e hr]
  exact ⟨h, hs⟩

/-- everything a synchronous `Delete` does -/
theorem delete_sync_spec {c : Coll} {l : Loaded} (h : Inv' c l) (hd : c.disk.dir = true) (hp : c.pending = [])
    (u : Nat) :
    (c.delete u).2 = .ok () ∧
    Inv' (c.delete u).1 { l with index := l.index.deleteByUUID u } ∧
    Synced (c.delete u).1 { l with index := l.index.deleteByUUID u } ∧
    (c.delete u).1.view = updView c.view u none ∧
    (c.delete u).1.log = c.log ++ delOps c l u ∧
    (c.delete u).1.disk = c.disk.applyAll (delOps c l u) ∧
    (c.delete u).1.live = c.live := by
  obtain ⟨l', h1, h2, h3⟩ := delete_spec' h u
  have hl : l' = { l with index := l.index.deleteByUUID u } := by
    have hm := h2.mem
    rw [delete_eq h.toInv u, delState_mem] at hm
    injection hm with hm
    exact hm.symm
  subst hl
  refine ⟨h1, h2, ?_, h3, ?_⟩
  · rw [delete_eq h.toInv u]
    refine ⟨commit_schema _ _, commit_dir _ _, ?_⟩
    show (delState c l u).pending = []
    rw [delState_pending, hp]
    split <;> rfl
  · rw [delete_eq h.toInv u]
    obtain ⟨p1, p2, p3⟩ := delState_sync (c := c) (l := l) (u := u) hd
    exact ⟨p2, p1, p3⟩

/-- C04: a synchronous delete has committed when it returns -/
theorem delete_synced {c : Coll} {l : Loaded} (h : Inv' c l) (hs : Synced c l) (u : Nat) :
    (c.delete u).2 = .ok () ∧ ∃ l', Inv' (c.delete u).1 l' ∧ Synced (c.delete u).1 l' := by
  obtain ⟨h1, h2, h3, _⟩ := delete_sync_spec h hs.2.1 hs.2.2 u
  exact ⟨h1, _, h2, h3⟩

/-! ### 4. C04: a new handle on the same directory -/

/-- what a load computes from `schema.json` -/
def SchemaImg.load (img : SchemaImg) : Loaded :=
  { descs := img.descs, settings := img.settings, index := img.index.reload }

theorem startFlusher_proj (l : Loaded) :
    (startFlusher l).index = l.index ∧ (startFlusher l).settings = l.settings ∧ (startFlusher l).descs = l.descs ∧
    (l.settings.async.isSome = true → (startFlusher l).flusher = true) := by
  unfold startFlusher
  split
  · exact ⟨rfl, rfl, rfl, fun _ => rfl⟩
  · refine ⟨rfl, rfl, rfl, ?_⟩
    intro ha
    cases hf : l.flusher with
    | true => rfl
    | false => simp_all

theorem startFlusher_sync {l : Loaded} (ha : l.settings.async = none) : startFlusher l = l := by
  unfold startFlusher; rw [ha]; rfl

theorem startFlusher_idem (l : Loaded) : startFlusher (startFlusher l) = startFlusher l := by
  cases ha : l.settings.async.isSome <;> cases hf : l.flusher <;> simp [startFlusher, ha, hf]

/-- first access of a new handle, directory passing `Control` -/
theorem schema_load_ok {c : Coll} {img : SchemaImg} (hm : c.mem = none) (hd : c.disk.schema = some img)
    (hc : controlLoaded c.live c.disk img.load = .ok ()) :
    c.schema = ({ c with mem := some (startFlusher img.load) }, .ok (startFlusher img.load)) := by
  unfold SchemaImg.load at hc
  unfold Coll.schema
  rw [hm]
  simp only [hd, hc]
  rfl

/-- first access of a new handle, index and files disagreeing: the schema is cached and the error returned -/
theorem schema_load_corrupted {c : Coll} {img : SchemaImg} (hm : c.mem = none) (hd : c.disk.schema = some img)
    (hc : controlLoaded c.live c.disk img.load = .err .corrupted) :
    c.schema = ({ c with mem := some (startFlusher img.load) }, .err .corrupted) := by
  unfold SchemaImg.load at hc
  unfold Coll.schema
  rw [hm]
  simp only [hd, hc]
  rfl

/-- a reload of the directory gives the loaded schema up to the `next` counter (which a load
    recomputes); `Synced` is the special case where `schema.json` is literally `l.img` -/
def SyncedR (c : Coll) (l : Loaded) : Prop :=
  ∃ img, c.disk.schema = some img ∧ img.descs = l.descs ∧ img.settings = l.settings ∧
    img.index.ids = l.index.ids ∧ img.index.fields = l.index.fields ∧ c.disk.dir = true ∧ c.pending = []

theorem Synced.toR {c : Coll} {l : Loaded} (h : Synced c l) : SyncedR c l :=
  ⟨l.img, h.1, rfl, rfl, rfl, rfl, h.2.1, h.2.2⟩

theorem reload_congr {a b : ObjIndex} (hi : a.ids = b.ids) (hf : a.fields = b.fields) : a.reload = b.reload := by
  unfold ObjIndex.reload
  rw [hi, hf]

/-- ids are never reused after a restart: the recomputed counter is above every stored oid -/
theorem reload_next_fresh {ix : ObjIndex} (h : ix.WF) : ∀ p ∈ ix.reload.ids, p.1 < ix.reload.next :=
  (reload_wf h).ltNext

theorem reload_uuids (ix : ObjIndex) : ix.reload.uuids = ix.uuids := rfl

/-- C04: the first access of a new handle on a synced directory loads the image, recomputes `next`,
    passes `Control` and denotes the same objects (any mode) -/
theorem reopen_spec_gen {c : Coll} {l : Loaded} (h : Inv' c l) (hs : SyncedR c l) (hk : ShapeOk c l) :
    ∃ l', (c.reopen).schema = ({ c.reopen with mem := some l' }, .ok l') ∧ l'.index = l.index.reload ∧
      l'.settings = l.settings ∧ l'.descs = l.descs ∧
      Inv' { c.reopen with mem := some l' } l' ∧ ({ c.reopen with mem := some l' } : Coll).view = c.view ∧
      SyncedR { c.reopen with mem := some l' } l' ∧ ShapeOk { c.reopen with mem := some l' } l' := by
  obtain ⟨img, hd, hdesc, hset, hids, hfields, hdir, hpend⟩ := hs
  have hrl : img.index.reload = l.index.reload := reload_congr hids hfields
  have hload : img.load = { descs := l.descs, settings := l.settings, index := l.index.reload } := by
    unfold SchemaImg.load; rw [hdesc, hset, hrl]
  have hwf : l.index.reload.WF := reload_wf h.wf
  have hv : ∀ u, c.view u = c.disk.files.get? u := view_nopend hpend
  have hc : controlLoaded c.reopen.live c.reopen.disk img.load = .ok () := by
    rw [hload]
    apply control_ok_of (d := c.disk) (live := c.live)
      (l := { descs := l.descs, settings := l.settings, index := l.index.reload }) hk hwf
    intro u
    show u ∈ l.index.uuids ↔ _
    rw [h.dom u, hv]
  obtain ⟨f1, f2, f3, f4⟩ := startFlusher_proj img.load
  refine ⟨startFlusher img.load, schema_load_ok rfl hd hc, ?_, ?_, ?_, ?_, ?_, ?_, ?_⟩
  · rw [f1, hload]
  · rw [f2, hload]
  · rw [f3, hload]
  · have hview : ({ c.reopen with mem := some (startFlusher img.load) } : Coll).view = c.view :=
      view_congr (c := c) (c' := { c.reopen with mem := some (startFlusher img.load) }) hpend.symm rfl
    have hix : (startFlusher img.load).index = l.index.reload := by rw [f1, hload]
    refine ⟨⟨rfl, by rw [hix]; exact hwf, ?_, ?_, ?_, ?_, ?_, fun _ => rfl, ?_, h.keyedF, OMap.Keyed.nil,
      OMap.Keyed.nil⟩, fun _ => rfl⟩
    · rw [hix, hview]; exact reload_reflects h.refl
    · rw [hix, hview]; exact h.dom
    · rw [hix, hview]; exact h.typed
    · intro u o hg; cases hg
    · intro u o hg; cases hg
    · intro ha
      apply f4
      rw [hload]
      rw [f2, hload] at ha
      exact ha
  · exact view_congr (c := c) (c' := { c.reopen with mem := some (startFlusher img.load) }) hpend.symm rfl
  · refine ⟨img, hd, ?_, ?_, ?_, ?_, hdir, rfl⟩
    · rw [f3, hload, hdesc]
    · rw [f2, hload, hset]
    · rw [f1, hload]; exact hids
    · rw [f1, hload]; exact hfields
  · show descsCompatFields (startFlusher img.load).descs c.live = true
    rw [f3, hload]; exact hk

/-- C04, as stated: synchronous mode, `schema.json` literally the image of the loaded schema -/
theorem reopen_spec {c : Coll} {l : Loaded} (h : Inv' c l) (hs : Synced c l) (hk : ShapeOk c l)
    (_ha : l.settings.async = none) :
    ∃ l', (c.reopen).schema = ({ c.reopen with mem := some l' }, .ok l') ∧ l'.index = l.index.reload ∧
      l'.settings = l.settings ∧ l'.descs = l.descs ∧
      Inv' { c.reopen with mem := some l' } l' ∧ ({ c.reopen with mem := some l' } : Coll).view = c.view := by
  obtain ⟨l', h1, h2, h3, h4, h5, h6, _⟩ := reopen_spec_gen h hs.toR hk
  exact ⟨l', h1, h2, h3, h4, h5, h6⟩

/-- in synchronous mode the loaded schema of the new handle is exactly the stored one with `next` recomputed -/
theorem reopen_loaded_sync {c : Coll} {l : Loaded} (h : Inv' c l) (hs : Synced c l) (hk : ShapeOk c l)
    (ha : l.settings.async = none) :
    (c.reopen).schema =
      ({ c.reopen with mem := some { descs := l.descs, settings := l.settings, index := l.index.reload } },
        .ok { descs := l.descs, settings := l.settings, index := l.index.reload }) := by
  have hc : controlLoaded c.reopen.live c.reopen.disk l.img.load = .ok () := by
    apply control_ok_of (d := c.disk) (live := c.live) (l := l.img.load) hk (reload_wf h.wf)
    intro u
    show u ∈ l.index.uuids ↔ _
    rw [h.dom u, view_nopend hs.2.2]
  have := schema_load_ok (c := c.reopen) rfl hs.1 hc
  rw [startFlusher_sync (l := l.img.load) ha] at this
  exact this

/-! ### 5. C04: `Close` -/

/-- the loop of `flushAll` -/
def flushFoldR (c : Coll) (ps : OMap) : Coll := ps.foldl (fun c p => (c.fs .mkdir).fs (.writeObj p.2)) c

theorem flushFold_projR (ps : OMap) : ∀ (c : Coll),
    (flushFoldR c ps).mem = c.mem ∧ (flushFoldR c ps).cache = c.cache ∧ (flushFoldR c ps).live = c.live ∧
    (flushFoldR c ps).disk.schema = c.disk.schema ∧
    (flushFoldR c ps).disk.files = ps.foldl (fun m p => m.put p.2) c.disk.files ∧
    (flushFoldR c ps).pending = c.pending := by
  induction ps with
  | nil => intro c; exact ⟨rfl, rfl, rfl, rfl, rfl, rfl⟩
  | cons p t ih =>
    intro c
    obtain ⟨h1, h2, h3, h4, h5, h6⟩ := ih ((c.fs .mkdir).fs (.writeObj p.2))
    show (flushFoldR ((c.fs .mkdir).fs (.writeObj p.2)) t).mem = _ ∧ (flushFoldR ((c.fs .mkdir).fs (.writeObj p.2)) t).cache = _ ∧
      (flushFoldR ((c.fs .mkdir).fs (.writeObj p.2)) t).live = _ ∧
      (flushFoldR ((c.fs .mkdir).fs (.writeObj p.2)) t).disk.schema = _ ∧
      (flushFoldR ((c.fs .mkdir).fs (.writeObj p.2)) t).disk.files = _ ∧
      (flushFoldR ((c.fs .mkdir).fs (.writeObj p.2)) t).pending = _
    rw [h1, h2, h3, h4, h5, h6]
    refine ⟨by simp, by simp, by simp, fs_mkdir_schema c, ?_, by simp⟩
    show List.foldl _ ((c.fs .mkdir).disk.files.put p.2) t = _
    rw [fs_mkdir_files]
    rfl

theorem flushAll_proj (c : Coll) :
    (c.flushAll).mem = c.mem ∧ (c.flushAll).cache = c.cache ∧ (c.flushAll).live = c.live ∧
    (c.flushAll).disk.schema = c.disk.schema ∧
    (c.flushAll).disk.files = c.pending.foldl (fun m p => m.put p.2) c.disk.files ∧
    (c.flushAll).pending = [] := by
  obtain ⟨h1, h2, h3, h4, h5, _⟩ := flushFold_projR c.pending c
  exact ⟨h1, h2, h3, h4, h5, rfl⟩

theorem close_eqR {c : Coll} {l : Loaded} (hm : c.mem = some l) : c.close = (c.flushAll.commit l, .ok ()) := by
  have := (flushAll_proj c).1
  unfold Coll.close
  simp only [this, hm]

/-- C04: `Close` writes every pending object and commits the loaded schema (any mode) -/
theorem close_synced {c : Coll} {l : Loaded} (h : Inv' c l) :
    (c.close).1.pending = [] ∧ (c.close).1.disk.schema = some l.img ∧ (c.close).2 = .ok () := by
  rw [close_eqR h.mem]
  refine ⟨?_, commit_schema _ _, rfl⟩
  show (c.flushAll.commit l).pending = []
  rw [commit_pending]
  exact (flushAll_proj c).2.2.2.2.2

theorem OMap.Keyed.foldl_put (ps : OMap) : ∀ {m : OMap}, m.Keyed → (ps.foldl (fun m p => m.put p.2) m).Keyed := by
  induction ps with
  | nil => intro m h; exact h
  | cons p t ih => intro m h; exact ih (h.put p.2)

/-- the files after `Close` -/
theorem close_files {c : Coll} {l : Loaded} (hm : c.mem = some l) :
    (c.close).1.disk.files = c.pending.foldl (fun m p => m.put p.2) c.disk.files := by
  rw [close_eqR hm]
  show (c.flushAll.commit l).disk.files = _
  rw [commit_files]
  exact (flushAll_proj c).2.2.2.2.1

/-- C04: closing does not change what the collection denotes (a pending object written to its file is
    read back from the file).  `hnd` — no two pending entries for the same uuid — is needed: see
    `close_view_counterexample`; it is true of every pending store built by `put`/`erase`
    (`OMap.keys_nodup_putR`, `OMap.keys_nodup_eraseR`) but is not part of `Inv`. -/
theorem close_view {c : Coll} {l : Loaded} (h : Inv' c l) (hnd : c.pending.keys.Nodup) :
    (c.close).1.view = c.view := by
  funext u
  rw [view_nopend (close_synced h).1, close_files h.mem, OMap.get?_foldl_put _ _ h.keyedP hnd]
  rfl

/-- after `Close` the handle is still consistent, and synced -/
theorem close_invR {c : Coll} {l : Loaded} (h : Inv' c l) (hnd : c.pending.keys.Nodup) :
    Inv' (c.close).1 l ∧ Synced (c.close).1 l := by
  have hv := close_view h hnd
  obtain ⟨hp, hsch, _⟩ := close_synced h
  have hcache : (c.close).1.cache = c.cache := by
    rw [close_eqR h.mem]
    show (c.flushAll.commit l).cache = _
    rw [commit_cache]; exact (flushAll_proj c).2.1
  have hmem : (c.close).1.mem = some l := by
    rw [close_eqR h.mem]
    show (c.flushAll.commit l).mem = _
    rw [commit_mem, (flushAll_proj c).1]; exact h.mem
  refine ⟨⟨⟨hmem, h.wf, by rw [hv]; exact h.refl, by rw [hv]; exact h.dom, by rw [hv]; exact h.typed, ?_, ?_,
    fun _ => hp, h.flusher, ?_, by rw [hp]; exact OMap.Keyed.nil, by rw [hcache]; exact h.keyedC⟩, ?_⟩,
    hsch, ?_, hp⟩
  · rw [hv, hcache]; exact h.cacheOk
  · intro u o hg; rw [hp] at hg; cases hg
  · rw [close_files h.mem]; exact OMap.Keyed.foldl_put _ h.keyedF
  · rw [hcache]; exact h.cacheOff
  · rw [close_eqR h.mem]; exact commit_dir _ _

/-- C04 end to end: close, open a new handle, first access — same objects -/
theorem close_reopen_view {c : Coll} {l : Loaded} (h : Inv' c l) (hnd : c.pending.keys.Nodup) (hk : ShapeOk c l) :
    ∃ l', ((c.close).1.reopen).schema = ({ (c.close).1.reopen with mem := some l' }, .ok l') ∧
      Inv' { (c.close).1.reopen with mem := some l' } l' ∧
      ({ (c.close).1.reopen with mem := some l' } : Coll).view = c.view := by
  obtain ⟨hi, hs⟩ := close_invR h hnd
  have hlive : (c.close).1.live = c.live := by
    rw [close_eqR h.mem]
    show (c.flushAll.commit l).live = _
    rw [commit_live]; exact (flushAll_proj c).2.2.1
  have hk' : ShapeOk (c.close).1 l := by unfold ShapeOk; rw [hlive]; exact hk
  obtain ⟨l', h1, _, _, _, h5, h6, _⟩ := reopen_spec_gen hi hs.toR hk'
  exact ⟨l', h1, h5, h6.trans (close_view h hnd)⟩

/-! `close_view` without `hnd` is false: an asynchronous handle whose pending store holds two entries for
    uuid 1 (values `a` then `b`).  `Inv'` holds (it only sees the first entry); `Close` writes both, the
    second one last, so the collection denotes `b` afterwards. -/

namespace CloseCounter

def a : Obj := { uuid := 1, shape := "a", vals := [] }
def b : Obj := { uuid := 1, shape := "b", vals := [] }
def l0 : Loaded :=
  { descs := [], settings := { async := some { threshold := 10, timeout := 10 } },
    index := { next := 1, ids := [(0, 1)], fields := [] }, flusher := true }
def c0 : Coll :=
  { live := [], disk := { dir := true }, mem := some l0, cache := [(1, a)], pending := [(1, a), (1, b)] }

theorem view0 (u : Nat) : c0.view u = if 1 = u then some a else none := by
  rw [view_eq]
  show (match OMap.get? [(1, a), (1, b)] u with | some o => some o | none => OMap.get? [] u) = _
  rw [OMap.get?_cons, OMap.get?_cons, OMap.get?_nil]
  by_cases h : 1 = u <;> simp [h]

theorem inv0 : Inv' c0 l0 := by
  refine ⟨⟨rfl, ⟨by decide, by decide, by decide, (fun fi hfi => by cases hfi)⟩, ⟨?_, (fun fi hfi => by cases hfi)⟩,
    ?_, ?_, ?_, ?_, (fun hs => by cases hs), (fun _ => rfl), OMap.Keyed.nil, ?_, ?_⟩, (fun hs => by cases hs)⟩
  · intro p hp
    have : p = (0, 1) := by simpa [l0] using hp
    subst this
    exact ⟨a, rfl, rfl⟩
  · intro u
    rw [view0]
    show u ∈ [1] ↔ _
    by_cases hu : 1 = u
    · simp [hu.symm]
    · have : u ≠ 1 := fun e => hu e.symm
      simp [hu, this]
  · intro u o hv
    rw [view0] at hv
    by_cases hu : 1 = u
    · rw [if_pos hu] at hv
      injection hv with hv
      subst hv
      exact ⟨(fun fi hfi => by cases hfi), hu⟩
    · rw [if_neg hu] at hv; cases hv
  · intro u o hg
    rw [view0]
    change OMap.get? [(1, a)] u = some o at hg
    rw [OMap.get?_cons, OMap.get?_nil] at hg
    exact hg
  · intro u o hg
    change OMap.get? [(1, a), (1, b)] u = some o at hg
    show OMap.get? [(1, a)] u = some o
    rw [OMap.get?_cons, OMap.get?_cons, OMap.get?_nil] at hg
    rw [OMap.get?_cons, OMap.get?_nil]
    by_cases hu : 1 = u
    · rw [if_pos hu] at hg ⊢; exact hg
    · rw [if_neg hu, if_neg hu] at hg; cases hg
  · intro p hp
    have : p = (1, a) ∨ p = (1, b) := by simpa [c0] using hp
    rcases this with rfl | rfl <;> rfl
  · intro p hp
    have : p = (1, a) := by simpa [c0] using hp
    subst this; rfl

end CloseCounter

open CloseCounter in
/-- `close_view` needs the pending store to hold at most one entry per uuid -/
theorem close_view_counterexample : ∃ (c : Coll) (l : Loaded), Inv' c l ∧ (c.close).1.view ≠ c.view := by
  refine ⟨c0, l0, inv0, ?_⟩
  intro h
  have h1 : (c0.close).1.view 1 = some b := rfl
  have h2 : c0.view 1 = some a := rfl
  rw [h, h2] at h1
  exact absurd h1 (by decide)

/-! ### 6. C11: `Repair` -/

/-- `db.schema` only ever changes the cached schema of the handle -/
theorem schema_frame (c : Coll) :
    (c.schema).1.disk = c.disk ∧ (c.schema).1.log = c.log ∧ (c.schema).1.live = c.live ∧
    (c.schema).1.cache = c.cache ∧ (c.schema).1.pending = c.pending := by
  unfold Coll.schema
  split
  · exact ⟨rfl, rfl, rfl, rfl, rfl⟩
  · split
    · exact ⟨rfl, rfl, rfl, rfl, rfl⟩
    · dsimp only
      split <;> exact ⟨rfl, rfl, rfl, rfl, rfl⟩

/-- `db.get` never touches the directory -/
theorem get_frame (c : Coll) (u : Nat) :
    (c.get u).1.disk = c.disk ∧ (c.get u).1.log = c.log ∧ (c.get u).1.live = c.live ∧
    (c.get u).1.pending = c.pending := by
  obtain ⟨h1, h2, h3, _, h5⟩ := schema_frame c
  unfold Coll.get
  split
  · next c1 l1 heq =>
    rw [heq] at h1 h2 h3 h5
    simp only at h1 h2 h3 h5
    split
    · exact ⟨h1, h2, h3, h5⟩
    · split
      · split <;> exact ⟨h1, h2, h3, h5⟩
      · exact ⟨h1, h2, h3, h5⟩
  · next c1 e heq => rw [heq] at h1 h2 h3 h5; exact ⟨h1, h2, h3, h5⟩
  · next c1 heq => rw [heq] at h1 h2 h3 h5; exact ⟨h1, h2, h3, h5⟩

theorem repairAdd_frame (us : List Nat) : ∀ (c : Coll) (l : Loaded),
    (Coll.repairAdd c l us).1.disk = c.disk ∧ (Coll.repairAdd c l us).1.log = c.log ∧
    (Coll.repairAdd c l us).1.live = c.live := by
  induction us with
  | nil => intro c l; exact ⟨rfl, rfl, rfl⟩
  | cons u us ih =>
    intro c l
    obtain ⟨g1, g2, g3, _⟩ := get_frame c u
    unfold Coll.repairAdd
    split
    · exact ih c l
    · split
      · next c1 o heq =>
        rw [heq] at g1 g2 g3
        simp only at g1 g2 g3
        split
        · next ix _ =>
          obtain ⟨i1, i2, i3⟩ := ih c1 { l with index := ix }
          exact ⟨i1.trans g1, i2.trans g2, i3.trans g3⟩
        · exact ⟨g1, g2, g3⟩
        · exact ⟨g1, g2, g3⟩
      · next c1 e heq => rw [heq] at g1 g2 g3; exact ⟨g1, g2, g3⟩
      · next c1 heq => rw [heq] at g1 g2 g3; exact ⟨g1, g2, g3⟩

/-- the two loops of `Repair`, given the (possibly rebuilt) schema to repair -/
def repairTail (c : Coll) (l : Loaded) : Coll × Res Unit :=
  match Coll.repairAdd c l c.disk.files.keys with
  | (c, l, .ok ()) => (c.setMem { l with index := repairDrop c.disk l.index l.index.uuids }, .ok ())
  | (c, l, .err e) => (c.setMem l, .err e)
  | (c, _, .panic) => (c, .panic)

/-- `Repair` once a schema is cached in the handle: an internally inconsistent index is rebuilt from scratch -/
def repairBody (c : Coll) : Coll × Res Unit :=
  match c.mem with
  | none => (c, .err .other)
  | some l =>
    repairTail c (if l.index.control then l
                  else { l with index := { (ObjIndex.new l.descs) with next := l.index.next } })

theorem repair_eq (c : Coll) :
    c.repair = match c.schema with
      | (_, .err .corrupted) | (_, .ok _) => repairBody (c.schema).1
      | (c, .err e) => (c, .err e)
      | (c, .panic) => (c, .panic) := rfl

theorem repair_eq_body {c : Coll} (h : (c.schema).2 = .err .corrupted ∨ ∃ l, (c.schema).2 = .ok l) :
    c.repair = repairBody (c.schema).1 := by
  rw [repair_eq]
  split
  · rfl
  · rfl
  · next _ c1 e hne heq =>
    rw [heq] at h
    rcases h with h | ⟨l, h⟩
    · injection h with h; exact absurd h hne
    · cases h
  · next c1 heq =>
    rw [heq] at h
    rcases h with h | ⟨l, h⟩ <;> cases h

theorem repairTail_frame (c : Coll) (l : Loaded) :
    (repairTail c l).1.disk = c.disk ∧ (repairTail c l).1.log = c.log ∧ (repairTail c l).1.live = c.live := by
  obtain ⟨r1, r2, r3⟩ := repairAdd_frame c.disk.files.keys c l
  unfold repairTail
  split
  · next c2 l3 heq => rw [heq] at r1 r2 r3; exact ⟨r1, r2, r3⟩
  · next c2 l3 e heq => rw [heq] at r1 r2 r3; exact ⟨r1, r2, r3⟩
  · next c2 l3 heq => rw [heq] at r1 r2 r3; exact ⟨r1, r2, r3⟩

theorem repairBody_frame (c : Coll) : (repairBody c).1.disk = c.disk ∧ (repairBody c).1.log = c.log := by
  unfold repairBody
  split
  · exact ⟨rfl, rfl⟩
  · exact ⟨(repairTail_frame _ _).1, (repairTail_frame _ _).2.1⟩

/-- C11: `Repair` does not modify, create or delete any file: it performs no directory mutation at all -/
theorem repair_no_fs (c : Coll) : (c.repair).1.disk = c.disk ∧ (c.repair).1.log = c.log := by
  obtain ⟨s1, s2, _⟩ := schema_frame c
  obtain ⟨b1, b2⟩ := repairBody_frame (c.schema).1
  rw [repair_eq]
  split
  · exact ⟨b1.trans s1, b2.trans s2⟩
  · exact ⟨b1.trans s1, b2.trans s2⟩
  · next _ c1 e _ heq => rw [heq] at s1 s2; exact ⟨s1, s2⟩
  · next c1 heq => rw [heq] at s1 s2; exact ⟨s1, s2⟩

/-- C11: the second loop of `Repair` drops exactly the listed entries whose file is gone -/
theorem repairDrop_spec (d : Disk) (us : List Nat) : ∀ {ix : ObjIndex}, ix.WF →
    (repairDrop d ix us).WF ∧
    (repairDrop d ix us).uuids = ix.uuids.filter (fun u => d.files.has u || !(us.contains u)) ∧
    (repairDrop d ix us).next = ix.next := by
  induction us with
  | nil =>
    intro ix h
    refine ⟨h, ?_, rfl⟩
    show ix.uuids = _
    symm
    rw [List.filter_eq_self]
    intro a _; simp
  | cons u us ih =>
    intro ix h
    cases hh : d.files.has u with
    | true =>
      have he : repairDrop d ix (u :: us) = repairDrop d ix us := by simp [repairDrop, hh]
      rw [he]
      obtain ⟨i1, i2, i3⟩ := ih h
      refine ⟨i1, ?_, i3⟩
      rw [i2]
      apply List.filter_congr
      intro w _
      by_cases hw : w = u
      · subst hw; simp [hh]
      · simp [hw]
    | false =>
      have he : repairDrop d ix (u :: us) = repairDrop d (ix.deleteByUUID u) us := by simp [repairDrop, hh]
      rw [he]
      obtain ⟨i1, i2, i3⟩ := ih (deleteByUUID_wf h u)
      refine ⟨i1, ?_, by rw [i3, deleteByUUID_next]⟩
      rw [i2, deleteByUUID_uuids h, List.filter_filter]
      apply List.filter_congr
      intro w _
      by_cases hw : w = u
      · subst hw; simp [hh]
      · simp [hw]

/-- with every indexed uuid listed (as `Repair` does): exactly the entries whose file exists survive -/
theorem repairDrop_all (d : Disk) {ix : ObjIndex} (h : ix.WF) (u : Nat) :
    u ∈ (repairDrop d ix ix.uuids).uuids ↔ u ∈ ix.uuids ∧ d.files.has u = true := by
  rw [(repairDrop_spec d ix.uuids h).2.1, List.mem_filter]
  constructor
  · rintro ⟨h1, h2⟩
    refine ⟨h1, ?_⟩
    have h3 : d.files.has u = true ∨ ¬ u ∈ ix.uuids := by simpa using h2
    rcases h3 with h3 | h3
    · exact h3
    · exact absurd h1 h3
  · rintro ⟨h1, h2⟩
    exact ⟨h1, by simp [h2]⟩

/-! #### convergence of `Repair` -/

/-- `Reflects` only consults the store at indexed uuids -/
theorem Reflects.congr {ix : ObjIndex} {objs objs' : Nat → Option Obj} (h : Reflects ix objs)
    (he : ∀ u, u ∈ ix.uuids → objs u = objs' u) : Reflects ix objs' := by
  have hmem : ∀ {a u : Nat}, (a, u) ∈ ix.ids → u ∈ ix.uuids := fun hm => List.mem_map.mpr ⟨_, hm, rfl⟩
  constructor
  · intro p hp
    rw [← he p.2 (hmem (a := p.1) hp)]
    exact h.1 p hp
  · intro fi hfi e
    rw [h.2 fi hfi e]
    constructor
    · rintro ⟨u, o, h1, h2, h3⟩; exact ⟨u, o, h1, by rw [← he u (hmem h1)]; exact h2, h3⟩
    · rintro ⟨u, o, h1, h2, h3⟩; exact ⟨u, o, h1, by rw [he u (hmem h1)]; exact h2, h3⟩

/-- the index reflects *some* store which coincides with the files wherever an indexed object has a
    file.  This is what a crash between the file write and the commit of a *new* object, or between
    the file removal and the commit of a delete, leaves behind (the store being the old/new content);
    it is NOT what an interrupted update of an indexed value leaves (`crash_update_counterexample`). -/
def Agree (ix : ObjIndex) (files : OMap) : Prop :=
  ∃ objs, Reflects ix objs ∧ ∀ u, u ∈ ix.uuids → ∀ o, files.get? u = some o → objs u = some o

theorem Agree.of_reflects {ix : ObjIndex} {files : OMap} (h : Reflects ix (fun u => files.get? u)) : Agree ix files :=
  ⟨_, h, fun _ _ _ ho => ho⟩

/-- when moreover every indexed object has its file, the index reflects the files -/
theorem Agree.reflects {ix : ObjIndex} {files : OMap} (h : Agree ix files)
    (hall : ∀ u, u ∈ ix.uuids → files.has u = true) : Reflects ix (fun u => files.get? u) := by
  obtain ⟨objs, h1, h2⟩ := h
  apply h1.congr
  intro u hu
  obtain ⟨o, ho⟩ := (OMap.has_eq_true_iff _ _).mp (hall u hu)
  rw [h2 u hu o ho, ho]

theorem repairDrop_agree (d : Disk) (us : List Nat) : ∀ {ix : ObjIndex}, ix.WF → Agree ix d.files →
    Agree (repairDrop d ix us) d.files := by
  induction us with
  | nil => intro ix _ h; exact h
  | cons u us ih =>
    intro ix h ha
    cases hh : d.files.has u with
    | true =>
      have he : repairDrop d ix (u :: us) = repairDrop d ix us := by simp [repairDrop, hh]
      rw [he]; exact ih h ha
    | false =>
      have he : repairDrop d ix (u :: us) = repairDrop d (ix.deleteByUUID u) us := by simp [repairDrop, hh]
      rw [he]
      apply ih (deleteByUUID_wf h u)
      obtain ⟨objs, h1, h2⟩ := ha
      refine ⟨_, deleteByUUID_reflects h h1 u, ?_⟩
      intro w hw o ho
      rw [deleteByUUID_uuids h, List.mem_filter] at hw
      have hwu : w ≠ u := by simpa using hw.2
      simp only [if_neg hwu]
      exact h2 w hw.1 o ho

/-- what the loops of `Repair` need from the handle: a cached schema (whose flusher flag is settled),
    a cache that only holds file contents, files stored under their own uuid -/
structure RepairCtx (c : Coll) (lm : Loaded) : Prop where
  mem     : c.mem = some lm
  flushed : startFlusher lm = lm
  cacheOk : ∀ u o, c.cache.get? u = some o → c.disk.files.get? u = some o
  keyedF  : c.disk.files.Keyed

theorem schema_of_mem {c : Coll} {l : Loaded} (hm : c.mem = some l) (hf : startFlusher l = l) :
    c.schema = (c, .ok l) := by
  unfold Coll.schema
  rw [hm]
  simp only [hf]
  rw [← hm]

/-- the schema a handle caches always has its flusher flag settled -/
theorem schema_mem_flushed (c : Coll) {l : Loaded} (h : (c.schema).1.mem = some l) : startFlusher l = l := by
  unfold Coll.schema at h
  split at h
  · injection h with h; rw [← h]; exact startFlusher_idem _
  · next hm =>
    split at h
    · rw [hm] at h; cases h
    · dsimp only at h
      split at h
      · injection h with h; rw [← h]; exact startFlusher_idem _
      · injection h with h; rw [← h]; exact startFlusher_idem _
      · rw [hm] at h; cases h
      · rw [hm] at h; cases h

/-- reading, during `Repair`, an object that has a file -/
theorem get_ctx {c : Coll} {lm : Loaded} (ctx : RepairCtx c lm) {u : Nat} {o : Obj}
    (hf : c.disk.files.get? u = some o) :
    ∃ c', c.get u = (c', .ok o) ∧ RepairCtx c' lm ∧ c'.disk = c.disk := by
  have hou : o.uuid = u := ctx.keyedF.get? hf
  unfold Coll.get
  rw [schema_of_mem ctx.mem ctx.flushed]
  dsimp only
  cases hmc : lm.settings.mustCache with
  | false =>
    simp only [Bool.false_eq_true, if_false, hf]
    exact ⟨c, rfl, ctx, rfl⟩
  | true =>
    simp only [if_true]
    cases hc : c.cache.get? u with
    | some o' =>
      have := ctx.cacheOk u o' hc
      rw [hf] at this
      injection this with this
      subst this
      exact ⟨c, rfl, ctx, rfl⟩
    | none =>
      simp only [hf]
      refine ⟨_, rfl, ⟨ctx.mem, ctx.flushed, ?_, ctx.keyedF⟩, rfl⟩
      intro w o' hg
      change (c.cache.put o).get? w = some o' at hg
      show c.disk.files.get? w = some o'
      rw [OMap.get?_put, hou] at hg
      by_cases hw : w = u
      · rw [if_pos hw] at hg; rw [hw, hf]; exact hg
      · rw [if_neg hw] at hg; exact ctx.cacheOk w o' hg

/-- C11: the first loop of `Repair`.  Either every listed file that was not indexed has been indexed
    (and nothing else changed), or an object to re-index conflicts with a uniqueness constraint. -/
theorem repairAdd_spec {lm : Loaded} (us : List Nat) : ∀ (c : Coll) (l : Loaded), RepairCtx c lm → l.index.WF →
    Agree l.index c.disk.files → (∀ u o, c.disk.files.get? u = some o → o.Typed l.index) →
    (∀ u, u ∈ us → c.disk.files.has u = true) →
    (∃ c' l', Coll.repairAdd c l us = (c', l', .ok ()) ∧ RepairCtx c' lm ∧ c'.disk = c.disk ∧ l'.index.WF ∧
        Agree l'.index c.disk.files ∧ (∀ w, w ∈ l'.index.uuids ↔ w ∈ l.index.uuids ∨ w ∈ us) ∧
        (∀ u o, c.disk.files.get? u = some o → o.Typed l'.index) ∧
        l'.descs = l.descs ∧ l'.settings = l.settings ∧ l.index.next ≤ l'.index.next) ∨
    (∃ c' l', Coll.repairAdd c l us = (c', l', .err .unique)) := by
  induction us with
  | nil =>
    intro c l ctx hwf hag hty _
    exact Or.inl ⟨c, l, rfl, ctx, rfl, hwf, hag, by simp, hty, rfl, rfl, Nat.le_refl _⟩
  | cons u us ih =>
    intro c l ctx hwf hag hty hus
    have hus' : ∀ w, w ∈ us → c.disk.files.has w = true := fun w hw => hus w (List.mem_cons_of_mem _ hw)
    unfold Coll.repairAdd
    by_cases hin : u ∈ l.index.uuids
    · have : l.index.uuids.contains u = true := by simpa using hin
      rw [if_pos this]
      rcases ih c l ctx hwf hag hty hus' with ⟨c', l', h1, h2, h3, h4, h5, h6, h7⟩ | h
      · refine Or.inl ⟨c', l', h1, h2, h3, h4, h5, ?_, h7⟩
        intro w
        rw [h6 w, List.mem_cons]
        constructor
        · rintro (h | h)
          · exact Or.inl h
          · exact Or.inr (Or.inr h)
        · rintro (h | h | h)
          · exact Or.inl h
          · exact Or.inl (h ▸ hin)
          · exact Or.inr h
      · exact Or.inr h
    · have : ¬ (l.index.uuids.contains u = true) := by simpa using hin
      rw [if_neg this]
      obtain ⟨o, ho⟩ := (OMap.has_eq_true_iff _ _).mp (hus u List.mem_cons_self)
      have hou : o.uuid = u := ctx.keyedF.get? ho
      obtain ⟨c1, hg, ctx1, hd1⟩ := get_ctx ctx ho
      rw [hg]
      dsimp only
      rcases insertOrUpdate_total hwf (hty u o ho) with ⟨ix', hr⟩ | hr
      · rw [hr]
        dsimp only
        have hwf' : ix'.WF := insertOrUpdate_wf hwf (hty u o ho) hr
        have huu : ix'.uuids = l.index.uuids ++ [u] := by
          rw [insertOrUpdate_uuids hr, hou, if_neg hin]
        have hag' : Agree ix' c1.disk.files := by
          rw [hd1]
          obtain ⟨objs, g1, g2⟩ := hag
          refine ⟨_, insertOrUpdate_reflects hwf (hty u o ho) g1 hr, ?_⟩
          intro w hw o' ho'
          rw [hou]
          by_cases hwu : w = u
          · rw [if_pos hwu]
            rw [hwu, ho] at ho'
            exact ho'
          · rw [if_neg hwu]
            rw [huu, List.mem_append, List.mem_singleton] at hw
            rcases hw with hw | hw
            · exact g2 w hw o' ho'
            · exact absurd hw hwu
        have hty' : ∀ u o, c1.disk.files.get? u = some o → o.Typed ix' := by
          rw [hd1]
          intro w o' ho'
          exact insertOrUpdate_typed hr (hty w o' ho')
        rcases ih c1 { l with index := ix' } ctx1 hwf' hag' hty' (by rw [hd1]; exact hus') with
          ⟨c', l', h1, h2, h3, h4, h5, h6, h7, h8, h9, h10⟩ | h
        · rw [hd1] at h3 h5 h7
          refine Or.inl ⟨c', l', h1, h2, h3, h4, h5, ?_, h7, h8, h9, ?_⟩
          · intro w
            rw [h6 w]
            show w ∈ ix'.uuids ∨ w ∈ us ↔ _
            rw [huu, List.mem_append, List.mem_singleton, List.mem_cons]
            constructor
            · rintro ((h | h) | h)
              · exact Or.inl h
              · exact Or.inr (Or.inl h)
              · exact Or.inr (Or.inr h)
            · rintro (h | h | h)
              · exact Or.inl (Or.inl h)
              · exact Or.inl (Or.inr h)
              · exact Or.inr h
          · exact Nat.le_trans (insertOrUpdate_next_mono hr) h10
        · exact Or.inr h
      · rw [hr]
        exact Or.inr ⟨c1, l, rfl⟩

/-- the two loops together: the index ends up with exactly the uuids of the files, well formed and
    reflecting the files — unless re-indexing hits a uniqueness conflict -/
theorem repairTail_spec {c : Coll} {lm l : Loaded} (ctx : RepairCtx c lm) (hwf : l.index.WF)
    (hag : Agree l.index c.disk.files) (hty : ∀ u o, c.disk.files.get? u = some o → o.Typed l.index) :
    ((repairTail c l).2 = .ok () ∧ ∃ l', (repairTail c l).1.mem = some l' ∧ l'.index.WF ∧
        (∀ u, u ∈ l'.index.uuids ↔ c.disk.files.has u = true) ∧
        Reflects l'.index (fun u => c.disk.files.get? u) ∧
        l'.descs = l.descs ∧ l'.settings = l.settings ∧ l.index.next ≤ l'.index.next) ∨
    (repairTail c l).2 = .err .unique := by
  rcases repairAdd_spec c.disk.files.keys c l ctx hwf hag hty
      (fun u hu => (OMap.mem_keys_iff_has _ _).mp hu) with ⟨c', l', h1, _, h3, h4, h5, h6, _, h8, h9, h10⟩ | ⟨c', l', h⟩
  · left
    unfold repairTail
    rw [h1]
    dsimp only
    rw [h3]
    obtain ⟨d1, _, d3⟩ := repairDrop_spec c.disk l'.index.uuids h4
    have huu : ∀ u, u ∈ (repairDrop c.disk l'.index l'.index.uuids).uuids ↔ c.disk.files.has u = true := by
      intro u
      rw [repairDrop_all c.disk h4, h6 u]
      constructor
      · exact fun h => h.2
      · intro h; exact ⟨Or.inr ((OMap.mem_keys_iff_has _ _).mpr h), h⟩
    refine ⟨rfl, _, rfl, d1, huu, ?_, h8, h9, ?_⟩
    · exact (repairDrop_agree c.disk l'.index.uuids h4 h5).reflects (fun u hu => (huu u).mp hu)
    · show l.index.next ≤ (repairDrop c.disk l'.index l'.index.uuids).next
      rw [d3]; exact h10
  · right
    unfold repairTail
    rw [h]

/-- a handle that caches a schema got it from an ok or a `corrupted` answer of `db.schema` -/
theorem schema_mem_res (c : Coll) {l : Loaded} (h : (c.schema).1.mem = some l) :
    (c.schema).2 = .err .corrupted ∨ ∃ l0, (c.schema).2 = .ok l0 := by
  unfold Coll.schema at h ⊢
  split
  · exact Or.inr ⟨_, rfl⟩
  · next hm =>
    rw [hm] at h
    dsimp only at h ⊢
    split
    · next hd => rw [hd] at h; rw [hm] at h; cases h
    · next img hd =>
      rw [hd] at h
      dsimp only at h ⊢
      split
      · exact Or.inr ⟨_, rfl⟩
      · exact Or.inl rfl
      · next e hne hc => rw [hc] at h; simp only at h; rw [hm] at h; cases h
      · next hc => rw [hc] at h; simp only at h; rw [hm] at h; cases h

theorem repair_live (c : Coll) : (c.repair).1.live = c.live := by
  obtain ⟨_, _, s3, _⟩ := schema_frame c
  rw [repair_eq]
  split
  · unfold repairBody
    split
    · exact s3
    · exact (repairTail_frame _ _).2.2.trans s3
  · unfold repairBody
    split
    · exact s3
    · exact (repairTail_frame _ _).2.2.trans s3
  · next _ c1 e _ heq => rw [heq] at s3; exact s3
  · next c1 heq => rw [heq] at s3; exact s3

/-- what `Repair` achieves, given the (possibly rebuilt) index `l2` it starts its loops from -/
theorem repair_of_tail {c : Coll} {l l2 : Loaded} (hmem : (c.schema).1.mem = some l)
    (hl2 : (if l.index.control then l
            else { l with index := { (ObjIndex.new l.descs) with next := l.index.next } }) = l2)
    (hd : l2.descs = l.descs) (hs : l2.settings = l.settings) (hn : l2.index.next = l.index.next)
    (hwf : l2.index.WF) (hag : Agree l2.index c.disk.files)
    (hty : ∀ u o, c.disk.files.get? u = some o → o.Typed l2.index)
    (hkeyed : c.disk.files.Keyed)
    (hcache : ∀ u o, c.cache.get? u = some o → c.disk.files.get? u = some o) :
    ((c.repair).2 = .ok () ∧ ∃ l', (c.repair).1.mem = some l' ∧ l'.index.WF ∧
        (∀ u, u ∈ l'.index.uuids ↔ c.disk.files.has u = true) ∧
        Reflects l'.index (fun u => c.disk.files.get? u) ∧
        l'.descs = l.descs ∧ l'.settings = l.settings ∧ l.index.next ≤ l'.index.next ∧
        (ShapeOk c l → (c.repair).1.control = .ok ())) ∨
    (c.repair).2 = .err .unique := by
  obtain ⟨s1, _, _, s4, _⟩ := schema_frame c
  have ctx : RepairCtx (c.schema).1 l :=
    ⟨hmem, schema_mem_flushed c hmem, by rw [s4, s1]; exact hcache, by rw [s1]; exact hkeyed⟩
  have hbody : c.repair = repairTail (c.schema).1 l2 := by
    rw [repair_eq_body (schema_mem_res c hmem)]
    unfold repairBody
    rw [hmem]
    dsimp only
    rw [hl2]
  have hdisk := (repair_no_fs c).1
  have hlive := repair_live c
  rcases repairTail_spec ctx hwf (by rw [s1]; exact hag) (by rw [s1]; exact hty) with
    ⟨h1, l', h2, h3, h4, h5, h6, h7, h8⟩ | h
  · rw [s1] at h4 h5
    rw [← hbody] at h1 h2
    refine Or.inl ⟨h1, l', h2, h3, h4, h5, h6.trans hd, h7.trans hs, hn ▸ h8, ?_⟩
    intro hk
    unfold Coll.control
    rw [h2]
    dsimp only
    rw [hdisk, hlive]
    apply control_ok_of (by rw [h6, hd]; exact hk) h3
    intro u
    rw [h4 u, OMap.has_iff_get?_isSome]
  · rw [← hbody] at h
    exact Or.inr h

/-- C11 (main): a handle whose cached index is well formed and agrees with the files wherever both
    exist (`Agree`).  After `Repair`, unless re-indexing a file hits a uniqueness conflict (the only
    possible error), the index holds exactly the uuids of the files, is well formed, reflects the
    files, and `Control` answers ok (if the struct has the stored shape).  No file was touched
    (`repair_no_fs`). -/
theorem repair_converges {c : Coll} {l : Loaded}
    (hmem : (c.schema).1.mem = some l) (hwf : l.index.WF) (hagree : Agree l.index c.disk.files)
    (htyped : ∀ u o, c.disk.files.get? u = some o → o.Typed l.index)
    (hkeyed : c.disk.files.Keyed)
    (hcache : ∀ u o, c.cache.get? u = some o → c.disk.files.get? u = some o) :
    ((c.repair).2 = .ok () ∧ ∃ l', (c.repair).1.mem = some l' ∧ l'.index.WF ∧
        (∀ u, u ∈ l'.index.uuids ↔ c.disk.files.has u = true) ∧
        Reflects l'.index (fun u => c.disk.files.get? u) ∧
        l'.descs = l.descs ∧ l'.settings = l.settings ∧ l.index.next ≤ l'.index.next ∧
        (ShapeOk c l → (c.repair).1.control = .ok ())) ∨
    (c.repair).2 = .err .unique :=
  repair_of_tail hmem (by rw [control_of_wf hwf]; rfl) rfl rfl rfl hwf hagree htyped hkeyed hcache

/-- C11, the other branch: an internally inconsistent index (`control = false`) is rebuilt from
    `ObjIndex.new`, keeping `next`, and every file is re-indexed -/
theorem repair_rebuild {c : Coll} {l : Loaded}
    (hmem : (c.schema).1.mem = some l) (hctl : l.index.control = false)
    (htyped : ∀ u o, c.disk.files.get? u = some o → o.Typed (ObjIndex.new l.descs))
    (hkeyed : c.disk.files.Keyed)
    (hcache : ∀ u o, c.cache.get? u = some o → c.disk.files.get? u = some o) :
    ((c.repair).2 = .ok () ∧ ∃ l', (c.repair).1.mem = some l' ∧ l'.index.WF ∧
        (∀ u, u ∈ l'.index.uuids ↔ c.disk.files.has u = true) ∧
        Reflects l'.index (fun u => c.disk.files.get? u) ∧
        l'.descs = l.descs ∧ l'.settings = l.settings ∧ l.index.next ≤ l'.index.next ∧
        (ShapeOk c l → (c.repair).1.control = .ok ())) ∨
    (c.repair).2 = .err .unique := by
  apply repair_of_tail hmem (l2 := { l with index := { (ObjIndex.new l.descs) with next := l.index.next } })
    (by rw [hctl]; rfl) rfl rfl rfl ?_ ?_ htyped hkeyed hcache
  · exact ⟨List.nodup_nil, List.nodup_nil, fun p hp => absurd hp List.not_mem_nil,
      fun fi hfi => ((new_wf l.descs).fields fi hfi).congr rfl⟩
  · exact ⟨fun _ => none, new_reflects l.descs, fun u hu => absurd hu List.not_mem_nil⟩

/-! ### 7. C05: crash between two directory mutations (synchronous mode)

  Process-crash model: a call appends the list `delta` of its directory mutations to the log; a crash
  after `j` of them leaves the directory `c.disk.applyAll (delta.take j)`.  What the next `Open`
  sees is classified by the two predicates below. -/

/-- the next first access reports `corrupted` (and `Repair` is called for) -/
def Detected (live : List (String × String)) (d : Disk) : Prop :=
  ∃ img, d.schema = some img ∧
    controlLoaded live d { descs := img.descs, settings := img.settings, index := img.index.reload } = .err .corrupted

/-- the next first access succeeds and the loaded index reflects the files -/
def Consistent (live : List (String × String)) (d : Disk) : Prop :=
  ∃ img, d.schema = some img ∧
    controlLoaded live d { descs := img.descs, settings := img.settings, index := img.index.reload } = .ok () ∧
    Reflects img.index.reload (fun u => d.files.get? u)

/-- the two are exclusive -/
theorem not_detected_of_consistent {live : List (String × String)} {d : Disk} (h : Consistent live d) :
    ¬ Detected live d := by
  obtain ⟨img, h1, h2, _⟩ := h
  rintro ⟨img', h1', h2'⟩
  rw [h1] at h1'
  injection h1' with h1'
  subst h1'
  rw [h2] at h2'
  cases h2'

/-- C05: the log delta of an accepted synchronous insert is the object file, then the schema -/
theorem insert_log {E : Env} {c : Coll} {l : Loaded} (h : Inv' c l) (hs : Synced c l)
    (ha : l.settings.async = none) (o : Obj) (fresh : Nat) (ht : (storedObj E l o fresh).Typed l.index)
    (hr : (c.insert E o fresh).2 = .ok ()) :
    ∃ ix', l.index.insertOrUpdate (storedObj E l o fresh) = .ok ix' ∧
      (c.insert E o fresh).1.log =
        c.log ++ [.writeObj (storedObj E l o fresh), .writeSchema ({ l with index := ix' } : Loaded).img] ∧
      (c.insert E o fresh).1.disk =
        c.disk.applyAll [.writeObj (storedObj E l o fresh), .writeSchema ({ l with index := ix' } : Loaded).img] := by
  obtain ⟨ix', h1, _, _, _, h5, h6, _⟩ := insert_sync_spec h hs.2.1 ha o fresh ht hr
  exact ⟨ix', h1, h5, h6⟩

/-- C05: the log delta of a synchronous delete is the file removal (if there is a file), then the schema -/
theorem delete_log {c : Coll} {l : Loaded} (h : Inv' c l) (hs : Synced c l) (u : Nat) :
    (c.delete u).1.log =
      c.log ++ (if c.disk.files.has u
                then [.rmObj u, .writeSchema ({ l with index := l.index.deleteByUUID u } : Loaded).img]
                else [.writeSchema ({ l with index := l.index.deleteByUUID u } : Loaded).img]) ∧
    (c.delete u).1.disk = c.disk.applyAll (delOps c l u) :=
  ⟨(delete_sync_spec h hs.2.1 hs.2.2 u).2.2.2.2.1, (delete_sync_spec h hs.2.1 hs.2.2 u).2.2.2.2.2.1⟩

/-- a synced, consistent handle sits on a consistent directory -/
theorem consistent_of_inv {c : Coll} {l : Loaded} (h : Inv' c l) (hs : SyncedR c l) (hk : ShapeOk c l) :
    Consistent c.live c.disk := by
  obtain ⟨img, hd, hdesc, _, hids, hfields, _, hpend⟩ := hs
  have hrl : img.index.reload = l.index.reload := reload_congr hids hfields
  have hv : c.view = fun u => c.disk.files.get? u := funext (view_nopend hpend)
  refine ⟨img, hd, ?_, ?_⟩
  · apply control_ok_of (l := { descs := img.descs, settings := img.settings, index := img.index.reload })
    · show descsCompatFields img.descs c.live = true
      rw [hdesc]; exact hk
    · show img.index.reload.WF
      rw [hrl]; exact reload_wf h.wf
    · intro u
      show u ∈ img.index.reload.uuids ↔ _
      rw [hrl, reload_uuids, h.dom u, hv]
  · rw [hrl, ← hv]
    exact reload_reflects h.refl

/-- C05: crash points of the synchronous insert of a NEW object.  Before the file write: the old
    consistent state.  Between the file write and the commit: a file that is not indexed — detected.
    After the commit: the new consistent state. -/
theorem crash_insert_new {E : Env} {c : Coll} {l : Loaded} (h : Inv' c l) (hs : Synced c l) (hk : ShapeOk c l)
    (ha : l.settings.async = none) (o : Obj) (fresh : Nat) (ht : (storedObj E l o fresh).Typed l.index)
    (hr : (c.insert E o fresh).2 = .ok ()) (hnew : (storedObj E l o fresh).uuid ∉ l.index.uuids) :
    ∃ delta, (c.insert E o fresh).1.log = c.log ++ delta ∧ delta.length = 2 ∧
      Consistent c.live (c.disk.applyAll (delta.take 0)) ∧
      Detected c.live (c.disk.applyAll (delta.take 1)) ∧
      Consistent c.live (c.disk.applyAll (delta.take 2)) := by
  obtain ⟨ix', _, h2, h3, _, h5, h6, h7⟩ := insert_sync_spec h hs.2.1 ha o fresh ht hr
  refine ⟨_, h5, rfl, consistent_of_inv h hs.toR hk, ?_, ?_⟩
  · refine ⟨l.img, hs.1, ?_⟩
    rw [controlLoaded_corrupted_iff]
    refine ⟨hk, ?_⟩
    rintro ⟨_, hkeys, _⟩
    apply hnew
    apply hkeys
    rw [OMap.mem_keys_iff_has]
    show (c.disk.files.put (storedObj E l o fresh)).has _ = true
    rw [OMap.has_put]
    simp
  · show Consistent c.live (c.disk.applyAll [_, _])
    rw [← h6, ← h7]
    exact consistent_of_inv h2 h3.toR (by unfold ShapeOk; rw [h7]; exact hk)

/-- … hence at every crash point the directory is detected as corrupted or consistent -/
theorem crash_insert_new_all {E : Env} {c : Coll} {l : Loaded} (h : Inv' c l) (hs : Synced c l) (hk : ShapeOk c l)
    (ha : l.settings.async = none) (o : Obj) (fresh : Nat) (ht : (storedObj E l o fresh).Typed l.index)
    (hr : (c.insert E o fresh).2 = .ok ()) (hnew : (storedObj E l o fresh).uuid ∉ l.index.uuids) :
    ∃ delta, (c.insert E o fresh).1.log = c.log ++ delta ∧
      ∀ j, Detected c.live (c.disk.applyAll (delta.take j)) ∨ Consistent c.live (c.disk.applyAll (delta.take j)) := by
  obtain ⟨delta, h1, h2, h3, h4, h5⟩ := crash_insert_new h hs hk ha o fresh ht hr hnew
  refine ⟨delta, h1, ?_⟩
  intro j
  match j with
  | 0 => exact Or.inr h3
  | 1 => exact Or.inl h4
  | j + 2 =>
    have : delta.take (j + 2) = delta.take 2 := by
      rw [List.take_of_length_le (by omega), List.take_of_length_le (by omega)]
    rw [this]; exact Or.inr h5

/-- C05: crash points of the synchronous delete of a stored object.  Between the file removal and the
    commit: an indexed object without file — detected. -/
theorem crash_delete {c : Coll} {l : Loaded} (h : Inv' c l) (hs : Synced c l) (hk : ShapeOk c l) (u : Nat)
    (hu : u ∈ l.index.uuids) :
    ∃ delta, (c.delete u).1.log = c.log ++ delta ∧ delta.length = 2 ∧
      Consistent c.live (c.disk.applyAll (delta.take 0)) ∧
      Detected c.live (c.disk.applyAll (delta.take 1)) ∧
      Consistent c.live (c.disk.applyAll (delta.take 2)) := by
  obtain ⟨_, h2, h3, _, h5, h6, h7⟩ := delete_sync_spec h hs.2.1 hs.2.2 u
  have hhas : c.disk.files.has u = true := by
    rw [OMap.has_iff_get?_isSome, ← view_nopend hs.2.2]
    exact (h.dom u).mp hu
  have hops : delOps c l u = [.rmObj u, .writeSchema ({ l with index := l.index.deleteByUUID u } : Loaded).img] := by
    unfold delOps; rw [if_pos hhas]
  rw [hops] at h5 h6
  refine ⟨_, h5, rfl, consistent_of_inv h hs.toR hk, ?_, ?_⟩
  · refine ⟨l.img, hs.1, ?_⟩
    rw [controlLoaded_corrupted_iff]
    refine ⟨hk, ?_⟩
    rintro ⟨_, _, hall⟩
    have := hall u hu
    change (c.disk.files.erase u).has u = true at this
    rw [OMap.has_erase] at this
    simp at this
  · show Consistent c.live (c.disk.applyAll [_, _])
    rw [← h6, ← h7]
    exact consistent_of_inv h2 h3.toR (by unfold ShapeOk; rw [h7]; exact hk)

theorem crash_delete_all {c : Coll} {l : Loaded} (h : Inv' c l) (hs : Synced c l) (hk : ShapeOk c l) (u : Nat)
    (hu : u ∈ l.index.uuids) :
    ∃ delta, (c.delete u).1.log = c.log ++ delta ∧
      ∀ j, Detected c.live (c.disk.applyAll (delta.take j)) ∨ Consistent c.live (c.disk.applyAll (delta.take j)) := by
  obtain ⟨delta, h1, h2, h3, h4, h5⟩ := crash_delete h hs hk u hu
  refine ⟨delta, h1, ?_⟩
  intro j
  match j with
  | 0 => exact Or.inr h3
  | 1 => exact Or.inl h4
  | j + 2 =>
    have : delta.take (j + 2) = delta.take 2 := by
      rw [List.take_of_length_le (by omega), List.take_of_length_le (by omega)]
    rw [this]; exact Or.inr h5

/-- a delete of an absent object only rewrites the schema: both crash points are consistent -/
theorem crash_delete_absent {c : Coll} {l : Loaded} (h : Inv' c l) (hs : Synced c l) (hk : ShapeOk c l) (u : Nat)
    (hu : u ∉ l.index.uuids) :
    ∃ delta, (c.delete u).1.log = c.log ++ delta ∧ delta.length = 1 ∧
      Consistent c.live (c.disk.applyAll (delta.take 0)) ∧ Consistent c.live (c.disk.applyAll (delta.take 1)) := by
  obtain ⟨_, h2, h3, _, h5, h6, h7⟩ := delete_sync_spec h hs.2.1 hs.2.2 u
  have hhas : c.disk.files.has u = false := by
    rw [OMap.has_iff_get?_isSome, ← view_nopend hs.2.2]
    cases hv : (c.view u).isSome with
    | false => rfl
    | true => exact absurd ((h.dom u).mpr hv) hu
  have hops : delOps c l u = [.writeSchema ({ l with index := l.index.deleteByUUID u } : Loaded).img] := by
    unfold delOps; rw [hhas]; rfl
  rw [hops] at h5 h6
  refine ⟨_, h5, rfl, consistent_of_inv h hs.toR hk, ?_⟩
  show Consistent c.live (c.disk.applyAll [_])
  rw [← h6, ← h7]
  exact consistent_of_inv h2 h3.toR (by unfold ShapeOk; rw [h7]; exact hk)

/-- C05: an update that changes no indexed value is harmless at its middle crash point: the new file
    under the old schema is a consistent directory -/
theorem crash_update_partial {E : Env} {c : Coll} {l : Loaded} (h : Inv' c l) (hs : Synced c l) (hk : ShapeOk c l)
    (ha : l.settings.async = none) (o : Obj) (fresh : Nat) (ht : (storedObj E l o fresh).Typed l.index)
    (hr : (c.insert E o fresh).2 = .ok ()) (hupd : (storedObj E l o fresh).uuid ∈ l.index.uuids)
    (hsame : ∀ old, c.view (storedObj E l o fresh).uuid = some old →
      ∀ fi ∈ l.index.fields, (storedObj E l o fresh).field fi.pos = old.field fi.pos) :
    ∃ delta, (c.insert E o fresh).1.log = c.log ++ delta ∧ delta.length = 2 ∧
      Consistent c.live (c.disk.applyAll (delta.take 0)) ∧
      Consistent c.live (c.disk.applyAll (delta.take 1)) ∧
      Consistent c.live (c.disk.applyAll (delta.take 2)) := by
  obtain ⟨ix', _, h2, h3, _, h5, h6, h7⟩ := insert_sync_spec h hs.2.1 ha o fresh ht hr
  generalize storedObj E l o fresh = o' at *
  have hv : ∀ u, c.view u = c.disk.files.get? u := view_nopend hs.2.2
  obtain ⟨old, hold⟩ := Option.isSome_iff_exists.mp ((h.dom o'.uuid).mp hupd)
  have hsame' := hsame old hold
  refine ⟨_, h5, rfl, consistent_of_inv h hs.toR hk, ?_, ?_⟩
  · refine ⟨l.img, hs.1, ?_, ?_⟩
    · apply control_ok_of (l := { descs := l.descs, settings := l.settings, index := l.index.reload }) hk
        (reload_wf h.wf)
      intro u
      show u ∈ l.index.uuids ↔ ((c.disk.files.put o').get? u).isSome = true
      rw [OMap.get?_put]
      by_cases hu : u = o'.uuid
      · rw [if_pos hu, hu]; simp [hupd]
      · rw [if_neg hu, h.dom u, hv]
    · show Reflects l.index.reload (fun u => (c.disk.files.put o').get? u)
      apply reload_reflects
      have hrf := h.refl
      constructor
      · intro p hp
        show ∃ o, (c.disk.files.put o').get? p.2 = some o ∧ o.uuid = p.2
        rw [OMap.get?_put]
        by_cases hu : p.2 = o'.uuid
        · rw [if_pos hu]; exact ⟨o', rfl, hu.symm⟩
        · rw [if_neg hu, ← hv]; exact hrf.1 p hp
      · intro fi hfi e
        rw [hrf.2 fi hfi e]
        constructor
        · rintro ⟨u, x, g1, g2, g3⟩
          by_cases hu : u = o'.uuid
          · refine ⟨u, o', g1, ?_, ?_⟩
            · show (c.disk.files.put o').get? u = some o'
              rw [OMap.get?_put, if_pos hu]
            · rw [hu, hold] at g2
              injection g2 with g2
              rw [hsame' fi hfi, g2]; exact g3
          · refine ⟨u, x, g1, ?_, g3⟩
            show (c.disk.files.put o').get? u = some x
            rw [OMap.get?_put, if_neg hu, ← hv]; exact g2
        · rintro ⟨u, x, g1, g2, g3⟩
          change (c.disk.files.put o').get? u = some x at g2
          rw [OMap.get?_put] at g2
          by_cases hu : u = o'.uuid
          · rw [if_pos hu] at g2
            injection g2 with g2
            subst g2
            exact ⟨u, old, g1, by rw [hu]; exact hold, by rw [← hsame' fi hfi]; exact g3⟩
          · rw [if_neg hu, ← hv] at g2
            exact ⟨u, x, g1, g2, g3⟩
  · show Consistent c.live (c.disk.applyAll [_, _])
    rw [← h6, ← h7]
    exact consistent_of_inv h2 h3.toR (by unfold ShapeOk; rw [h7]; exact hk)

/-- an insert that passes validation, serialisation and the uniqueness check is accepted -/
theorem insert_ok_of {E : Env} {c : Coll} {l : Loaded} (h : Inv c l) (o : Obj) (fresh : Nat)
    (ht : (storedObj E l o fresh).Typed l.index)
    (hv : E.validate (E.canon l.descs (E.transform o)) = true)
    (hs : E.serialisable (storedObj E l o fresh) = true)
    (hu : l.index.satisfyAll (storedObj E l o fresh) = .ok ()) : (c.insert E o fresh).2 = .ok () := by
  unfold storedObj at ht hs hu
  rcases insert_cases h o fresh ht with ⟨h1, _⟩ | ⟨_, h1, _⟩ | ⟨_, _, h1, _⟩ | ⟨_, _, _, hi⟩
  · rw [hv] at h1; cases h1
  · rw [hs] at h1; cases h1
  · rw [hu] at h1; cases h1
  · rw [hi]

/-! #### the known finding: an interrupted update of an indexed value goes unnoticed

  One indexed `int` field `A`, one object (uuid 1) with `A = 1`, synchronous, uncached.  The update
  `A := 2` writes the file, then commits the schema.  A crash in between leaves the file with
  `A = 2` under a schema whose index still says `A = 1`: `Control` has nothing to object (same
  uuids on both sides, index internally consistent), yet a search `A = 1` would return the object. -/

namespace UpdCounter

def dA : FieldDesc := { path := "A", type := "int", cast := some .i64, cons := { index := true } }
def fiA : FieldIdx := { name := "A", pos := 0, cast := .i64, cons := { index := true }, idx := [(.i64 1, 0)] }
def ix1 : ObjIndex := { next := 1, ids := [(0, 1)], fields := [fiA] }
def o1 : Obj := { uuid := 1, shape := "", vals := [.v (.i64 1)] }
def o2 : Obj := { uuid := 1, shape := "", vals := [.v (.i64 2)] }
def l0 : Loaded := { descs := [dA], settings := {}, index := ix1 }
def c0 : Coll :=
  { live := [("A", "int")], disk := { dir := true, files := [(1, o1)], schema := some l0.img }, mem := some l0 }
def E0 : Env := { up := id, lo := id, transform := id, validate := fun _ => true, compile := fun _ => none,
                  serialisable := fun _ => true }
/-- the directory after the file write of the update, before the commit -/
def d1 : Disk := { dir := true, files := [(1, o2)], schema := some l0.img }

theorem view0 (u : Nat) : c0.view u = if 1 = u then some o1 else none := by
  rw [view_eq]
  show (match OMap.get? [] u with | some o => some o | none => OMap.get? [(1, o1)] u) = _
  rw [OMap.get?_nil, OMap.get?_cons, OMap.get?_nil]

theorem typed1 (o : Obj) (v : Int) (h : o.vals = [.v (.i64 v)]) : o.Typed ix1 := by
  intro fi hfi
  have : fi = fiA := by simpa [ix1] using hfi
  subst this
  refine ⟨.i64 v, ?_, rfl⟩
  show o.vals.getD 0 _ = _
  rw [h]; rfl

theorem wf1 : ix1.WF := by
  refine ⟨by decide, by decide, by decide, ?_⟩
  intro fi hfi
  have : fi = fiA := by simpa [ix1] using hfi
  subst this
  refine ⟨List.pairwise_singleton _ _, List.Perm.refl _, ?_, ?_⟩
  · intro e he
    have : e = (.i64 1, 0) := by simpa [fiA] using he
    subst this; rfl
  · intro hq; cases hq

theorem inv0 : Inv' c0 l0 := by
  refine ⟨⟨rfl, wf1, ⟨?_, ?_⟩, ?_, ?_, (fun u o hg => by cases hg), (fun u o hg => by cases hg), (fun _ => rfl),
    (fun hs => by cases hs), ?_, OMap.Keyed.nil, OMap.Keyed.nil⟩, fun _ => rfl⟩
  · intro p hp
    have : p = (0, 1) := by simpa [l0, ix1] using hp
    subst this
    exact ⟨o1, rfl, rfl⟩
  · intro fi hfi e
    have : fi = fiA := by simpa [l0, ix1] using hfi
    subst this
    show e ∈ [((.i64 1 : Val), 0)] ↔ ∃ u o, (e.2, u) ∈ [(0, 1)] ∧ c0.view u = some o ∧ o.field 0 = .v e.1
    constructor
    · intro he
      rw [List.mem_singleton] at he
      subst he
      exact ⟨1, o1, by simp, rfl, rfl⟩
    · rintro ⟨u, o, g1, g2, g3⟩
      rw [List.mem_singleton] at g1
      obtain ⟨g1a, g1b⟩ := Prod.mk.inj g1
      subst g1b
      rw [view0, if_pos rfl] at g2
      injection g2 with g2
      subst g2
      have : e.1 = .i64 1 := by
        have : Leaf.v (.i64 1) = Leaf.v e.1 := g3
        injection this with this
        exact this.symm
      rw [List.mem_singleton]
      exact Prod.ext this g1a
  · intro u
    rw [view0]
    show u ∈ [1] ↔ _
    by_cases hu : 1 = u
    · simp [hu.symm]
    · have : u ≠ 1 := fun e => hu e.symm
      simp [hu, this]
  · intro u o hv
    rw [view0] at hv
    by_cases hu : 1 = u
    · rw [if_pos hu] at hv
      injection hv with hv
      subst hv
      exact ⟨typed1 o1 1 rfl, hu⟩
    · rw [if_neg hu] at hv; cases hv
  · intro p hp
    have : p = (1, o1) := by simpa [c0] using hp
    subst this; rfl

theorem stored2 : storedObj E0 l0 o2 9 = o2 := by decide

theorem control1 : controlLoaded c0.live d1
    { descs := l0.img.descs, settings := l0.img.settings, index := l0.img.index.reload } = .ok () := by decide

end UpdCounter

open UpdCounter in
/-- C05, known finding: for an UPDATE that changes an indexed value, the crash point between the file
    write and the commit is NEITHER detected NOR consistent (stale index entry, silently kept) -/
theorem crash_update_counterexample :
    ∃ (E : Env) (c : Coll) (l : Loaded) (o : Obj) (fresh : Nat),
      Inv' c l ∧ Synced c l ∧ ShapeOk c l ∧ l.settings.async = none ∧ (storedObj E l o fresh).Typed l.index ∧
      (c.insert E o fresh).2 = .ok () ∧ (storedObj E l o fresh).uuid ∈ l.index.uuids ∧
      ∃ delta, (c.insert E o fresh).1.log = c.log ++ delta ∧
        ¬ Detected c.live (c.disk.applyAll (delta.take 1)) ∧
        ¬ Consistent c.live (c.disk.applyAll (delta.take 1)) := by
  have ht : (storedObj E0 l0 o2 9).Typed l0.index := by rw [stored2]; exact typed1 o2 2 rfl
  have hs : Synced c0 l0 := ⟨rfl, rfl, rfl⟩
  have hr : (c0.insert E0 o2 9).2 = .ok () := insert_ok_of inv0.toInv o2 9 ht rfl rfl (by rw [stored2]; rfl)
  obtain ⟨ix', _, hlog, _⟩ := insert_log inv0 hs rfl o2 9 ht hr
  refine ⟨E0, c0, l0, o2, 9, inv0, hs, (by show descsCompatFields [dA] [("A", "int")] = true; decide), rfl, ht, hr, by rw [stored2]; decide, _, hlog, ?_, ?_⟩
  · rw [stored2]
    show ¬ Detected c0.live d1
    rintro ⟨img, g1, g2⟩
    have : img = l0.img := by
      have : some l0.img = some img := g1
      injection this with this
      exact this.symm
    subst this
    rw [control1] at g2
    cases g2
  · rw [stored2]
    show ¬ Consistent c0.live d1
    rintro ⟨img, g1, _, g3⟩
    have : img = l0.img := by
      have : some l0.img = some img := g1
      injection this with this
      exact this.symm
    subst this
    obtain ⟨u, x, k1, k2, k3⟩ := (g3.2 fiA (by show fiA ∈ [fiA]; simp) (.i64 1, 0)).mp (by show _ ∈ [_]; simp)
    have hu : u = 1 := by
      have : ((0 : Nat), u) ∈ [((0 : Nat), (1 : Nat))] := k1
      simpa using this
    subst hu
    have hx : x = o2 := by
      have : some o2 = some x := k2
      injection this with this
      exact this.symm
    subst hx
    exact absurd k3 (by decide)

/-! #### the detected crash states are exactly what `Repair` is specified for (`repair_converges`) -/

/-- `DB.Control()` on a synced, consistent handle -/
theorem control_call_ok_of_inv {c : Coll} {l : Loaded} (h : Inv' c l) (hp : c.pending = []) (hk : ShapeOk c l) :
    c.control = .ok () := by
  unfold Coll.control
  rw [h.mem]
  exact control_ok_of_inv h hp hk

/-- after a crash between the file write and the commit of a new object, the reloaded index agrees
    with the files (the store it reflects is the old content) -/
theorem agree_after_insert_crash {c : Coll} {l : Loaded} (h : Inv' c l) (hp : c.pending = []) {o' : Obj}
    (hnew : o'.uuid ∉ l.index.uuids) : Agree l.index.reload (c.disk.apply (.writeObj o')).files := by
  refine ⟨c.view, reload_reflects h.refl, ?_⟩
  intro u hu x hx
  change (c.disk.files.put o').get? u = some x at hx
  have hne : u ≠ o'.uuid := fun e => hnew (e ▸ hu)
  rw [OMap.get?_put, if_neg hne] at hx
  rw [view_nopend hp]; exact hx

/-- after a crash between the file removal and the commit of a delete, likewise -/
theorem agree_after_delete_crash {c : Coll} {l : Loaded} (h : Inv' c l) (hp : c.pending = []) (u : Nat) :
    Agree l.index.reload (c.disk.apply (.rmObj u)).files := by
  refine ⟨c.view, reload_reflects h.refl, ?_⟩
  intro w _ x hx
  change (c.disk.files.erase u).get? w = some x at hx
  rw [OMap.get?_erase] at hx
  by_cases hw : w = u
  · rw [if_pos hw] at hx; cases hx
  · rw [if_neg hw] at hx
    rw [view_nopend hp]; exact hx

open UpdCounter in
/-- … whereas the interrupted update of the known finding is outside `Repair`'s reach: the stale index
    does not agree with the files -/
theorem crash_update_not_agree : ¬ Agree l0.img.index.reload d1.files := by
  intro ha
  have hrf : Reflects l0.img.index.reload (fun u => d1.files.get? u) := by
    apply ha.reflects
    intro u hu
    have : u = 1 := by
      have : u ∈ [1] := hu
      simpa using this
    subst this
    rfl
  obtain ⟨u, x, k1, k2, k3⟩ := (hrf.2 fiA (by show fiA ∈ [fiA]; simp) (.i64 1, 0)).mp (by show _ ∈ [_]; simp)
  have hu : u = 1 := by
    have : ((0 : Nat), u) ∈ [((0 : Nat), (1 : Nat))] := k1
    simpa using this
  subst hu
  have hx : x = o2 := by
    have : some o2 = some x := k2
    injection this with this
    exact this.symm
  subst hx
  exact absurd k3 (by decide)

end Sod
