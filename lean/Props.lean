import Props.C02
import Props.C03
import Props.C08
import Props.C09
import Props.C13
import Props.C20
