import Generated.Format
import Generated.Locks
