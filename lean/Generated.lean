import Generated.Format
