package main

// Lock/effect facts.
//
// For every exported method of *DB and *Search, every exported function, and every
// `go func` literal of package sod, this file computes by abstract interpretation of the AST
//   - the set of lock-event sequences (acquire/release of sync.RWMutex / sync.Mutex values,
//     callees of the package inlined, defers run at function exit, branches as alternatives,
//     loop bodies taken zero or one time and required to be balanced), and
//   - the reads and writes of fields of the shared structures (DB, Schema, Async, objIndex,
//     fieldIndex, objectStore, objectMap) together with the locks held at that point.
// The result is written as Lean data (Generated/Locks.lean); the theorems in Props/C08.lean and
// Props/C09.lean are statements about that data and are re-checked on every run.
//
// Assumptions (part of the trusted base, see DESIGN.md): calls through the Object interface and
// through function values do not touch the handle; a callee whose receiver is a value freshly
// built in the caller works on private memory; recursion is lock-free.

import (
	"fmt"
	"go/ast"
	"go/token"
	"go/types"
	"os"
	"path/filepath"
	"sort"
	"strings"
)

type held struct {
	cls  int
	mode byte // 'R' or 'W'
}

// an abstract state of one thread inside a function: the locks it holds (most recent first,
// exactly the list `Disc` of SodModel/Lock.lean maintains) and whether it has returned
type outcome struct {
	held     []held
	returned bool
	defers   []int // indices (into fctx.deferCalls) of the defer statements executed so far
	rel0     bool  // the handle lock (class 0) has been released at least once on this path
}

func heldKey(hs []held) string {
	h := []string{}
	for _, x := range hs {
		h = append(h, fmt.Sprintf("%d%c", x.cls, x.mode))
	}
	return strings.Join(h, ",")
}

func (o outcome) key() string {
	return fmt.Sprintf("%s|%v|%v|%v", heldKey(o.held), o.returned, o.defers, o.rel0)
}

// one lock action together with the locks held just before it
type step struct {
	before []held
	acq    bool
	cls    int
	mode   byte
}

func (s step) key() string { return fmt.Sprintf("%s|%v|%d%c", heldKey(s.before), s.acq, s.cls, s.mode) }

type access struct {
	region string
	write  bool
	held   []held
	where  string
}

type summary struct {
	reacq    bool      // the handle lock is acquired again after having been released (two critical sections)
	acq0     bool      // the handle lock is acquired inside
	outs     []outcome // states at function exit (defers run)
	steps    []step    // every lock action that can happen inside, with the locks held before it
	accesses []access
}

type lockX struct {
	p         *pkgInfo
	decls     map[*types.Func]*ast.FuncDecl
	memo      map[string]*summary
	stack     map[string]bool
	recursive map[string]bool
	lockCls   map[string]int
	lockNames []string
	errors    []string
	goEntries []goEntry
	shared    map[string]bool
}

type goEntry struct {
	name string
	lit  *ast.FuncLit
	fn   *ast.FuncDecl
}

func newLockX(p *pkgInfo) *lockX {
	x := &lockX{p: p, decls: map[*types.Func]*ast.FuncDecl{}, memo: map[string]*summary{}, stack: map[string]bool{},
		recursive: map[string]bool{}, lockCls: map[string]int{},
		shared: map[string]bool{"DB": true, "Schema": true, "Async": true, "objIndex": true, "fieldIndex": true, "objectStore": true, "objectMap": true}}
	// fixed ranks of the known lock classes (anything else gets the next rank)
	for _, n := range []string{"DB.l", "objectStore.RWMutex", "objectMap.RWMutex", "DB.sl"} {
		x.lockCls[n] = len(x.lockNames)
		x.lockNames = append(x.lockNames, n)
	}
	for _, f := range p.files {
		for _, d := range f.Decls {
			if fd, ok := d.(*ast.FuncDecl); ok && fd.Body != nil {
				if obj, ok := p.info.Defs[fd.Name].(*types.Func); ok {
					x.decls[obj] = fd
				}
			}
		}
	}
	return x
}

func (x *lockX) cls(name string) int {
	if c, ok := x.lockCls[name]; ok {
		return c
	}
	c := len(x.lockNames)
	x.lockCls[name] = c
	x.lockNames = append(x.lockNames, name)
	return c
}

func namedOf(t types.Type) *types.Named {
	for {
		switch tt := t.(type) {
		case *types.Pointer:
			t = tt.Elem()
		case *types.Named:
			return tt
		default:
			return nil
		}
	}
}

func isSyncLock(t types.Type) bool {
	n := namedOf(t)
	return n != nil && n.Obj().Pkg() != nil && n.Obj().Pkg().Path() == "sync" && (n.Obj().Name() == "RWMutex" || n.Obj().Name() == "Mutex")
}

// lockCall recognises x.Lock()/RLock()/Unlock()/RUnlock() on a sync lock and names the lock.
func (x *lockX) lockCall(call *ast.CallExpr) (name string, acq bool, mode byte, ok bool) {
	sel, isSel := call.Fun.(*ast.SelectorExpr)
	if !isSel {
		return
	}
	fn, _ := x.p.info.Uses[sel.Sel].(*types.Func)
	if fn == nil || fn.Pkg() == nil || fn.Pkg().Path() != "sync" {
		return
	}
	switch sel.Sel.Name {
	case "Lock":
		acq, mode = true, 'W'
	case "RLock":
		acq, mode = true, 'R'
	case "Unlock":
		acq, mode = false, 'W'
	case "RUnlock":
		acq, mode = false, 'R'
	default:
		return
	}
	// the lock is either a field (db.l) or embedded in the receiver's struct (m.Lock() on *objectMap)
	xt := x.p.info.Types[sel.X].Type
	if isSyncLock(xt) {
		if inner, isSel2 := sel.X.(*ast.SelectorExpr); isSel2 {
			owner := namedOf(x.p.info.Types[inner.X].Type)
			if owner != nil {
				return owner.Obj().Name() + "." + inner.Sel.Name, acq, mode, true
			}
		}
		return "local." + types.ExprString(sel.X), acq, mode, true
	}
	owner := namedOf(xt)
	if owner != nil {
		embedded := "RWMutex"
		if s := x.p.info.Selections[sel]; s != nil {
			if n := namedOf(s.Obj().(*types.Func).Type().(*types.Signature).Recv().Type()); n != nil {
				embedded = n.Obj().Name()
			}
		}
		return owner.Obj().Name() + "." + embedded, acq, mode, true
	}
	return
}

type fctx struct {
	x          *lockX
	name       string
	fresh      map[types.Object]bool // local variables holding private memory
	dropAcc    bool                  // receiver is private: accesses are not recorded
	deferCalls []*ast.CallExpr
	accesses   []access
	steps      []step
	reacq      bool
}

func cloneHeld(h []held) []held { return append([]held{}, h...) }

func dedup(os []outcome) []outcome {
	seen := map[string]bool{}
	out := []outcome{}
	for _, o := range os {
		k := o.key()
		if !seen[k] {
			seen[k] = true
			out = append(out, o)
		}
	}
	return out
}

func (c *fctx) addEvent(o outcome, acq bool, cls int, mode byte) outcome {
	c.steps = append(c.steps, step{before: cloneHeld(o.held), acq: acq, cls: cls, mode: mode})
	n := outcome{held: cloneHeld(o.held), returned: o.returned, defers: o.defers, rel0: o.rel0}
	if cls == 0 {
		if acq && o.rel0 {
			c.reacq = true
		}
		if !acq {
			n.rel0 = true
		}
	}
	if acq {
		n.held = append([]held{{cls, mode}}, n.held...)
	} else {
		for i := 0; i < len(n.held); i++ {
			if n.held[i].cls == cls && n.held[i].mode == mode {
				n.held = append(n.held[:i], n.held[i+1:]...)
				break
			}
		}
	}
	return n
}

// funcKey identifies a summary (the same function is summarised separately for a private receiver)
func funcKey(fn *types.Func, in []held, drop bool) string {
	return fmt.Sprintf("%s/%s/%v", fn.FullName(), heldKey(in), drop)
}

// summarise analyses a function of the package entered with the locks `in` held.
func (x *lockX) summarise(fn *types.Func, in []held, drop bool) *summary {
	k := funcKey(fn, in, drop)
	if s, ok := x.memo[k]; ok {
		return s
	}
	if x.stack[k] {
		x.recursive[k] = true
		return &summary{outs: []outcome{{held: cloneHeld(in)}}}
	}
	fd := x.decls[fn]
	if fd == nil {
		return &summary{outs: []outcome{{held: cloneHeld(in)}}}
	}
	x.stack[k] = true
	s := x.summariseBody(fd.Type, fd.Recv, fd.Body, in, drop, fnName(fd))
	delete(x.stack, k)
	if x.recursive[k] && len(s.steps) > 0 {
		x.errors = append(x.errors, "recursive function with lock events: "+fn.FullName())
	}
	x.memo[k] = s
	return s
}

func fnName(fd *ast.FuncDecl) string {
	if fd.Recv != nil && len(fd.Recv.List) > 0 {
		return strings.TrimPrefix(types.ExprString(fd.Recv.List[0].Type), "*") + "." + fd.Name.Name
	}
	return fd.Name.Name
}

func (x *lockX) summariseBody(typ *ast.FuncType, recv *ast.FieldList, body *ast.BlockStmt, in []held, drop bool, full string) *summary {
	c := &fctx{x: x, name: full, fresh: map[types.Object]bool{}, dropAcc: drop}
	// by-value struct parameters and receivers are private copies
	mark := func(fl *ast.FieldList) {
		if fl == nil {
			return
		}
		for _, f := range fl.List {
			for _, n := range f.Names {
				if obj := x.p.info.Defs[n]; obj != nil {
					if _, isPtr := obj.Type().(*types.Pointer); !isPtr {
						if _, isStruct := obj.Type().Underlying().(*types.Struct); isStruct {
							c.fresh[obj] = true
						}
					}
				}
			}
		}
	}
	mark(recv)
	mark(typ.Params)
	outs := c.block(body.List, []outcome{{held: cloneHeld(in)}})
	// function exit: run defers (reverse order) on every outcome
	final := []outcome{}
	for _, o := range outs {
		o.returned = false
		ds := o.defers
		o.defers = nil
		cur := []outcome{o}
		for i := len(ds) - 1; i >= 0; i-- {
			cur = c.call(c.deferCalls[ds[i]], cur)
		}
		for j := range cur {
			cur[j].defers = nil
		}
		final = append(final, cur...)
	}
	acq0 := false
	for _, st := range c.steps {
		if st.acq && st.cls == 0 {
			acq0 = true
		}
	}
	return &summary{outs: dedup(final), accesses: c.accesses, steps: c.steps, reacq: c.reacq, acq0: acq0}
}

func (c *fctx) block(stmts []ast.Stmt, in []outcome) []outcome {
	cur := in
	for _, s := range stmts {
		cur = c.stmt(s, cur)
	}
	return cur
}

// split separates outcomes that already returned (they skip the statement)
func split(in []outcome) (live, done []outcome) {
	for _, o := range in {
		if o.returned {
			done = append(done, o)
		} else {
			live = append(live, o)
		}
	}
	return
}

func (c *fctx) stmt(s ast.Stmt, in []outcome) []outcome {
	live, done := split(in)
	if len(live) == 0 {
		return in
	}
	var out []outcome
	switch st := s.(type) {
	case *ast.ExprStmt:
		out = c.expr(st.X, live, false)
	case *ast.AssignStmt:
		out = live
		for _, r := range st.Rhs {
			out = c.expr(r, out, false)
		}
		for i, l := range st.Lhs {
			out = c.expr(l, out, true)
			// freshness of := definitions
			if id, ok := l.(*ast.Ident); ok && i < len(st.Rhs) && len(st.Lhs) == len(st.Rhs) {
				obj := c.x.p.info.Defs[id]
				if obj == nil {
					obj = c.x.p.info.Uses[id]
				}
				if v, isVar := obj.(*types.Var); isVar && !v.IsField() && v.Parent() != c.x.p.pkg.Scope() {
					// a local variable (or named result) now designates what the right-hand side built
					c.fresh[obj] = c.isFreshExpr(st.Rhs[i])
				}
			}
		}
	case *ast.IncDecStmt:
		out = c.expr(st.X, live, true)
	case *ast.DeclStmt:
		out = live
		if gd, ok := st.Decl.(*ast.GenDecl); ok {
			for _, sp := range gd.Specs {
				if vs, ok := sp.(*ast.ValueSpec); ok {
					for _, v := range vs.Values {
						out = c.expr(v, out, false)
					}
				}
			}
		}
	case *ast.ReturnStmt:
		out = live
		for _, r := range st.Results {
			out = c.expr(r, out, false)
		}
		for i := range out {
			out[i].returned = true
		}
	case *ast.BlockStmt:
		out = c.block(st.List, live)
	case *ast.IfStmt:
		cur := live
		if st.Init != nil {
			cur = c.stmt(st.Init, cur)
		}
		cur = c.expr(st.Cond, cur, false)
		thenO := c.block(st.Body.List, cur)
		var elseO []outcome
		if st.Else != nil {
			elseO = c.stmt(st.Else, cur)
		} else {
			elseO = cur
		}
		out = append(append([]outcome{}, thenO...), elseO...)
	case *ast.ForStmt:
		cur := live
		if st.Init != nil {
			cur = c.stmt(st.Init, cur)
		}
		if st.Cond != nil {
			cur = c.expr(st.Cond, cur, false)
		}
		out = c.loop(st.Body, st.Post, cur)
	case *ast.RangeStmt:
		cur := c.expr(st.X, live, false)
		out = c.loop(st.Body, nil, cur)
	case *ast.SwitchStmt:
		cur := live
		if st.Init != nil {
			cur = c.stmt(st.Init, cur)
		}
		if st.Tag != nil {
			cur = c.expr(st.Tag, cur, false)
		}
		out = c.clauses(st.Body, cur)
	case *ast.TypeSwitchStmt:
		cur := live
		if st.Init != nil {
			cur = c.stmt(st.Init, cur)
		}
		cur = c.stmt(st.Assign, cur)
		out = c.clauses(st.Body, cur)
	case *ast.SelectStmt:
		out = c.clauses(st.Body, live)
	case *ast.DeferStmt:
		c.deferCalls = append(c.deferCalls, st.Call)
		idx := len(c.deferCalls) - 1
		out = []outcome{}
		for _, o := range live {
			o.defers = append(append([]int{}, o.defers...), idx)
			out = append(out, o)
		}
	case *ast.GoStmt:
		if lit, ok := st.Call.Fun.(*ast.FuncLit); ok {
			c.x.goEntries = append(c.x.goEntries, goEntry{name: "go:" + c.name, lit: lit})
		}
		out = live
	case *ast.LabeledStmt:
		out = c.stmt(st.Stmt, live)
	case *ast.SendStmt:
		out = c.expr(st.Value, c.expr(st.Chan, live, false), false)
	default: // BranchStmt, EmptyStmt …
		out = live
	}
	return dedup(append(out, done...))
}

func (c *fctx) loop(body *ast.BlockStmt, post ast.Stmt, in []outcome) []outcome {
	once := c.block(body.List, in)
	if post != nil {
		once = c.stmt(post, once)
	}
	// a loop body must give back what it took (unless it returns)
	for _, o := range once {
		if o.returned {
			continue
		}
		ok := false
		for _, i := range in {
			if fmt.Sprint(i.held) == fmt.Sprint(o.held) {
				ok = true
			}
		}
		if !ok {
			c.x.errors = append(c.x.errors, "unbalanced loop in "+c.name)
		}
	}
	return append(append([]outcome{}, in...), once...)
}

func (c *fctx) clauses(body *ast.BlockStmt, in []outcome) []outcome {
	out := append([]outcome{}, in...) // no clause taken
	for _, cl := range body.List {
		switch cc := cl.(type) {
		case *ast.CaseClause:
			cur := in
			for _, e := range cc.List {
				cur = c.expr(e, cur, false)
			}
			out = append(out, c.block(cc.Body, cur)...)
		case *ast.CommClause:
			cur := in
			if cc.Comm != nil {
				cur = c.stmt(cc.Comm, cur)
			}
			out = append(out, c.block(cc.Body, cur)...)
		}
	}
	return out
}

func (c *fctx) isFreshExpr(e ast.Expr) bool {
	switch v := e.(type) {
	case *ast.CompositeLit:
		return true
	case *ast.UnaryExpr:
		if v.Op == token.AND {
			_, ok := v.X.(*ast.CompositeLit)
			return ok
		}
	case *ast.CallExpr:
		switch f := v.Fun.(type) {
		case *ast.Ident:
			n := f.Name
			return n == "make" || n == "new" || strings.HasPrefix(n, "new") || strings.HasPrefix(n, "empty") || strings.HasPrefix(n, "New")
		case *ast.SelectorExpr:
			n := f.Sel.Name
			return strings.HasPrefix(n, "new") || strings.HasPrefix(n, "makeTmp") || strings.HasPrefix(n, "empty")
		}
	}
	return false
}

// baseIdent returns the identifier at the root of a selector / index / star chain.
func baseIdent(e ast.Expr) *ast.Ident {
	for {
		switch v := e.(type) {
		case *ast.Ident:
			return v
		case *ast.SelectorExpr:
			e = v.X
		case *ast.IndexExpr:
			e = v.X
		case *ast.SliceExpr:
			e = v.X
		case *ast.StarExpr:
			e = v.X
		case *ast.ParenExpr:
			e = v.X
		default:
			return nil
		}
	}
}

func (c *fctx) record(sel *ast.SelectorExpr, write bool, outs []outcome) {
	if c.dropAcc {
		return
	}
	owner := namedOf(c.x.p.info.Types[sel.X].Type)
	if owner == nil || owner.Obj().Pkg() != c.x.p.pkg || !c.x.shared[owner.Obj().Name()] {
		return
	}
	s := c.x.p.info.Selections[sel]
	if s == nil || s.Kind() != types.FieldVal {
		return
	}
	if isSyncLock(s.Obj().Type()) {
		return
	}
	if id := baseIdent(sel.X); id != nil {
		if obj := c.x.p.info.Uses[id]; obj != nil && c.fresh[obj] {
			return
		}
	} else {
		return // rooted in a call result / literal: private
	}
	region := owner.Obj().Name() + "." + sel.Sel.Name
	pos := c.x.p.fset.Position(sel.Pos())
	for _, o := range outs {
		c.accesses = append(c.accesses, access{region: region, write: write, held: cloneHeld(o.held),
			where: fmt.Sprintf("%s:%d", filepath.Base(pos.Filename), pos.Line)})
	}
}

// expr walks an expression in evaluation order; `write` says the expression is assigned to.
func (c *fctx) recordGlobal(id *ast.Ident, obj *types.Var, write bool, outs []outcome) {
	if c.dropAcc {
		return
	}
	t := obj.Type()
	if n := namedOf(t); n != nil && n.Obj().Pkg() != nil && n.Obj().Pkg().Path() == "sync" {
		return // sync.Map, sync.Mutex …: synchronised by themselves
	}
	if types.Identical(t, types.Universe.Lookup("error").Type()) && !write {
		return // sentinel errors, assigned once at initialisation
	}
	pos := c.x.p.fset.Position(id.Pos())
	for _, o := range outs {
		c.accesses = append(c.accesses, access{region: "global." + obj.Name(), write: write, held: cloneHeld(o.held),
			where: fmt.Sprintf("%s:%d", filepath.Base(pos.Filename), pos.Line)})
	}
}

func (c *fctx) expr(e ast.Expr, in []outcome, write bool) []outcome {
	if e == nil {
		return in
	}
	switch v := e.(type) {
	case *ast.CallExpr:
		return c.call(v, in)
	case *ast.Ident:
		// a package-level variable is memory shared by every handle and every goroutine
		if obj, ok := c.x.p.info.Uses[v].(*types.Var); ok && !obj.IsField() && obj.Pkg() == c.x.p.pkg && obj.Parent() == c.x.p.pkg.Scope() {
			c.recordGlobal(v, obj, write, in)
		}
		return in
	case *ast.SelectorExpr:
		out := c.expr(v.X, in, false)
		c.record(v, write, out)
		return out
	case *ast.IndexExpr:
		out := c.expr(v.Index, in, false)
		return c.expr(v.X, out, write) // writing an element writes the container
	case *ast.SliceExpr:
		out := in
		for _, s := range []ast.Expr{v.Low, v.High, v.Max} {
			out = c.expr(s, out, false)
		}
		return c.expr(v.X, out, write)
	case *ast.StarExpr:
		return c.expr(v.X, in, write)
	case *ast.ParenExpr:
		return c.expr(v.X, in, write)
	case *ast.UnaryExpr:
		return c.expr(v.X, in, false)
	case *ast.BinaryExpr:
		return c.expr(v.Y, c.expr(v.X, in, false), false)
	case *ast.KeyValueExpr:
		return c.expr(v.Value, c.expr(v.Key, in, false), false)
	case *ast.CompositeLit:
		out := in
		for _, el := range v.Elts {
			out = c.expr(el, out, false)
		}
		return out
	case *ast.TypeAssertExpr:
		return c.expr(v.X, in, false)
	case *ast.FuncLit:
		return in // evaluated when called; only `go` and `defer` literals are followed
	}
	return in
}

func (c *fctx) call(call *ast.CallExpr, in []outcome) []outcome {
	out := in
	// builtins that write their first argument
	if id, ok := call.Fun.(*ast.Ident); ok && (id.Name == "delete" || id.Name == "copy") && len(call.Args) > 0 {
		if _, isBuiltin := c.x.p.info.Uses[id].(*types.Builtin); isBuiltin {
			out = c.expr(call.Args[0], out, true)
			for _, a := range call.Args[1:] {
				out = c.expr(a, out, false)
			}
			return out
		}
	}
	for _, a := range call.Args {
		out = c.expr(a, out, false)
	}
	// decoding into &v builds a new value: v is private until it is published
	if fname := types.ExprString(call.Fun); fname == "unmarshalJsonFile" || fname == "json.Unmarshal" {
		for _, a := range call.Args {
			if u, ok := a.(*ast.UnaryExpr); ok && u.Op == token.AND {
				if id, ok := u.X.(*ast.Ident); ok {
					if obj := c.x.p.info.Uses[id]; obj != nil {
						c.fresh[obj] = true
					}
				}
			}
		}
	}
	if name, acq, mode, ok := c.x.lockCall(call); ok {
		// the receiver expression is evaluated, not recorded (a lock is not a data region)
		cls := c.x.cls(name)
		res := []outcome{}
		for _, o := range out {
			res = append(res, c.addEvent(o, acq, cls, mode))
		}
		return res
	}
	var fn *types.Func
	private := false
	switch f := call.Fun.(type) {
	case *ast.Ident:
		fn, _ = c.x.p.info.Uses[f].(*types.Func)
	case *ast.SelectorExpr:
		fn, _ = c.x.p.info.Uses[f.Sel].(*types.Func)
		out = c.expr(f.X, out, false)
		if id := baseIdent(f.X); id != nil {
			if obj := c.x.p.info.Uses[id]; obj != nil && c.fresh[obj] {
				private = true
			}
		}
		// json.Marshal of the schema reads the whole index
		if x, ok := f.X.(*ast.Ident); ok && x.Name == "json" && strings.HasPrefix(f.Sel.Name, "Marshal") && len(call.Args) > 0 {
			if n := namedOf(c.x.p.info.Types[call.Args[0]].Type); n != nil && n.Obj().Name() == "Schema" && !c.dropAcc {
				for _, r := range []string{"Schema.Fields", "Schema.Cache", "Schema.AsyncWrites", "Schema.ObjectIndex", "objIndex.Fields", "objIndex.ObjectIds", "fieldIndex.Index"} {
					for _, o := range out {
						c.accesses = append(c.accesses, access{region: r, write: false, held: cloneHeld(o.held), where: "json.Marshal(schema)"})
					}
				}
			}
		}
	case *ast.FuncLit:
		// immediately invoked literal (defer func(){…}())
		res := []outcome{}
		for _, o := range out {
			sm := c.x.summariseBody(f.Type, nil, f.Body, o.held, c.dropAcc, c.name+"$lit")
			res = append(res, c.apply(sm, o)...)
		}
		return dedup(res)
	}
	if fn == nil || fn.Pkg() != c.x.p.pkg {
		return out
	}
	if recv := fn.Type().(*types.Signature).Recv(); recv != nil {
		if _, isIface := recv.Type().Underlying().(*types.Interface); isIface {
			return out // user code behind the Object interface
		}
	}
	res := []outcome{}
	for _, o := range out {
		res = append(res, c.apply(c.x.summarise(fn, o.held, c.dropAcc || private), o)...)
	}
	return dedup(res)
}

// apply merges the facts of a callee (analysed with the caller's locks) into the caller.
func (c *fctx) apply(s *summary, o outcome) []outcome {
	if !c.dropAcc {
		c.accesses = append(c.accesses, s.accesses...)
	}
	c.steps = append(c.steps, s.steps...)
	if s.reacq || (o.rel0 && s.acq0) {
		c.reacq = true
	}
	res := []outcome{}
	for _, p := range s.outs {
		res = append(res, outcome{held: cloneHeld(p.held), returned: o.returned, defers: o.defers, rel0: o.rel0 || p.rel0})
	}
	return res
}

// ---------------------------------------------------------------------------

func leanHeld(hs []held) string {
	parts := []string{}
	for _, h := range hs {
		parts = append(parts, fmt.Sprintf("((%d, 0), .%c)", h.cls, h.mode))
	}
	return "[" + strings.Join(parts, ", ") + "]"
}

func writeLocks(p *pkgInfo, dir string) error {
	x := newLockX(p)
	type entry struct {
		name     string
		steps    []step
		finals   [][]held
		sections int
	}
	entries := []entry{}
	allAcc := []access{}
	var fns []*types.Func
	for fn := range x.decls {
		fns = append(fns, fn)
	}
	sort.Slice(fns, func(i, j int) bool { return fns[i].FullName() < fns[j].FullName() })
	addEntry := func(name string, s *summary) {
		e := entry{name: name}
		if s.acq0 {
			e.sections = 1
		}
		if s.reacq {
			e.sections = 2
		}
		seen := map[string]bool{}
		for _, st := range s.steps {
			if !seen[st.key()] {
				seen[st.key()] = true
				e.steps = append(e.steps, st)
			}
		}
		sort.Slice(e.steps, func(i, j int) bool { return e.steps[i].key() < e.steps[j].key() })
		fseen := map[string]bool{}
		for _, o := range s.outs {
			if !fseen[heldKey(o.held)] {
				fseen[heldKey(o.held)] = true
				e.finals = append(e.finals, o.held)
			}
		}
		entries = append(entries, e)
		for _, a := range s.accesses {
			a.where = name + "@" + a.where
			allAcc = append(allAcc, a)
		}
	}
	for _, fn := range fns {
		fd := x.decls[fn]
		if !fd.Name.IsExported() {
			continue
		}
		recv := ""
		if fd.Recv != nil && len(fd.Recv.List) > 0 {
			recv = strings.TrimPrefix(types.ExprString(fd.Recv.List[0].Type), "*")
		}
		if recv != "DB" && recv != "Search" && recv != "" {
			continue
		}
		// the exported lock wrappers are not API calls: they are the lock itself
		if recv == "DB" && (fd.Name.Name == "Lock" || fd.Name.Name == "RLock" || fd.Name.Name == "Unlock" || fd.Name.Name == "RUnlock") {
			continue
		}
		addEntry(fnName(fd), x.summarise(fn, nil, false))
	}
	// goroutines (discovered while summarising; a goroutine may spawn others)
	for i := 0; i < len(x.goEntries); i++ {
		g := x.goEntries[i]
		dup := false
		for _, e := range entries {
			if e.name == g.name {
				dup = true
			}
		}
		if !dup {
			addEntry(g.name, x.summariseBody(g.lit.Type, nil, g.lit.Body, nil, false, g.name))
		}
	}
	if len(x.errors) > 0 {
		sort.Strings(x.errors)
		return fmt.Errorf("unsupported constructs: %s", strings.Join(x.errors, "; "))
	}
	// regions and deduplicated accesses
	regions := map[string]int{}
	regNames := []string{}
	type accKey struct {
		region int
		write  bool
		held   string
	}
	seen := map[accKey]string{}
	keys := []accKey{}
	// a package-level variable nobody writes after initialisation cannot be raced on
	writtenGlobal := map[string]bool{}
	for _, a := range allAcc {
		if a.write && strings.HasPrefix(a.region, "global.") {
			writtenGlobal[a.region] = true
		}
	}
	for _, a := range allAcc {
		if strings.HasPrefix(a.region, "global.") && !writtenGlobal[a.region] {
			continue
		}
		r, ok := regions[a.region]
		if !ok {
			r = len(regNames)
			regions[a.region] = r
			regNames = append(regNames, a.region)
		}
		hs := []string{}
		// a lock held twice is listed once, strongest mode
		best := map[int]byte{}
		for _, h := range a.held {
			if best[h.cls] != 'W' {
				best[h.cls] = h.mode
			}
		}
		cs := []int{}
		for c := range best {
			cs = append(cs, c)
		}
		sort.Ints(cs)
		for _, c := range cs {
			hs = append(hs, fmt.Sprintf("(%d, .%c)", c, best[c]))
		}
		k := accKey{r, a.write, strings.Join(hs, ", ")}
		if _, ok := seen[k]; !ok {
			seen[k] = a.where
			keys = append(keys, k)
		}
	}
	sort.Slice(keys, func(i, j int) bool {
		if keys[i].region != keys[j].region {
			return keys[i].region < keys[j].region
		}
		if keys[i].write != keys[j].write {
			return !keys[i].write
		}
		return keys[i].held < keys[j].held
	})

	b := &strings.Builder{}
	b.WriteString("/- GENERATED by /verif/extract from /repo's working tree — do not edit. -/\nimport SodModel.Lock\nnamespace Generated.Locks\nopen Sod.Lock\n\n")
	b.WriteString("/-- lock classes, index = rank -/\ndef lockNames : List String := [")
	for i, n := range x.lockNames {
		if i > 0 {
			b.WriteString(", ")
		}
		b.WriteString(leanStr(n))
	}
	b.WriteString("]\n\n/-- for every exported entry point and goroutine: every lock action that can occur, with the\n    locks held just before it, and the locks held when it ends -/\ndef entries : List EntryFacts := [\n")
	for i, e := range entries {
		ss := []string{}
		for _, st := range e.steps {
			k := "rel"
			if st.acq {
				k = "acq"
			}
			ss = append(ss, fmt.Sprintf("(%s, .%s (%d, 0) .%c)", leanHeld(st.before), k, st.cls, st.mode))
		}
		fs := []string{}
		for _, f := range e.finals {
			fs = append(fs, leanHeld(f))
		}
		sep := ","
		if i == len(entries)-1 {
			sep = ""
		}
		fmt.Fprintf(b, "  { name := %s,\n    steps := [%s],\n    finals := [%s] }%s\n", leanStr(e.name), strings.Join(ss, ",\n      "), strings.Join(fs, ", "), sep)
	}
	b.WriteString("]\n\n/-- critical sections of the handle lock (class 0) per entry: 0 = never taken, 1 = taken once on\n    every path, 2 = taken again after having been released on some path -/\ndef sections : List (String × Nat) := [")
	for i, e := range entries {
		if i > 0 {
			b.WriteString(", ")
		}
		fmt.Fprintf(b, "(%s, %d)", leanStr(e.name), e.sections)
	}
	b.WriteString("]\n\n/-- shared memory regions, index = region id -/\ndef regionNames : List String := [")
	for i, n := range regNames {
		if i > 0 {
			b.WriteString(", ")
		}
		b.WriteString(leanStr(n))
	}
	b.WriteString("]\n\n/-- distinct (region, read/write, locks held) facts; `entry` is unused (0) -/\ndef accesses : List Access := [\n")
	for i, k := range keys {
		sep := ","
		if i == len(keys)-1 {
			sep = ""
		}
		fmt.Fprintf(b, "  { entry := 0, region := %d, write := %v, held := [%s] }%s  -- %s %s\n", k.region, k.write, k.held, sep, regNames[k.region], seen[k])
	}
	b.WriteString("]\n\nend Generated.Locks\n")
	return os.WriteFile(filepath.Join(dir, "Locks.lean"), []byte(b.String()), 0644)
}
