package main

// placeholder: replaced by the lock/effect extractor
func writeLocks(p *pkgInfo, dir string) error { return nil }
