// extract regenerates lean/Generated/*.lean from /repo's working tree.
//
//	Format.lean  persistent-format constants: file names, extensions, the uuid
//	             regexp, every json tag of the persisted structs, operator strings
//	Locks.lean   lock/effect facts of every exported entry point and goroutine
//	             (see locks.go)
//
// Only the Go standard library is used (go/parser, go/ast, go/types).
package main

import (
	"flag"
	"fmt"
	"go/ast"
	"go/constant"
	"go/importer"
	"go/parser"
	"go/token"
	"go/types"
	"os"
	"path/filepath"
	"reflect"
	"sort"
	"strconv"
	"strings"
)

type pkgInfo struct {
	fset  *token.FileSet
	files []*ast.File
	info  *types.Info
	pkg   *types.Package
}

func load(repo string) (*pkgInfo, error) {
	fset := token.NewFileSet()
	pkgs, err := parser.ParseDir(fset, repo, func(fi os.FileInfo) bool {
		return !strings.HasSuffix(fi.Name(), "_test.go")
	}, parser.ParseComments)
	if err != nil {
		return nil, err
	}
	p, ok := pkgs["sod"]
	if !ok {
		return nil, fmt.Errorf("package sod not found in %s", repo)
	}
	names := []string{}
	for n := range p.Files {
		names = append(names, n)
	}
	sort.Strings(names)
	files := []*ast.File{}
	for _, n := range names {
		files = append(files, p.Files[n])
	}
	info := &types.Info{
		Types:      map[ast.Expr]types.TypeAndValue{},
		Defs:       map[*ast.Ident]types.Object{},
		Uses:       map[*ast.Ident]types.Object{},
		Selections: map[*ast.SelectorExpr]*types.Selection{},
	}
	conf := types.Config{Importer: importer.ForCompiler(fset, "source", nil), Error: func(err error) {}}
	pkg, err := conf.Check("github.com/0xrawsec/sod", fset, files, info)
	if err != nil && pkg == nil {
		return nil, err
	}
	return &pkgInfo{fset, files, info, pkg}, nil
}

func leanStr(s string) string { return strconv.Quote(s) }

// ---------------------------------------------------------------------------
// Format facts
// ---------------------------------------------------------------------------

func constString(p *pkgInfo, name string) (string, bool) {
	obj := p.pkg.Scope().Lookup(name)
	if obj == nil {
		return "", false
	}
	if c, ok := obj.(*types.Const); ok && c.Val().Kind() == constant.String {
		return constant.StringVal(c.Val()), true
	}
	// package-level var initialised with a string literal (or a call whose first argument is one)
	for _, f := range p.files {
		for _, d := range f.Decls {
			gd, ok := d.(*ast.GenDecl)
			if !ok || gd.Tok != token.VAR {
				continue
			}
			for _, sp := range gd.Specs {
				vs := sp.(*ast.ValueSpec)
				for i, n := range vs.Names {
					if n.Name != name || i >= len(vs.Values) {
						continue
					}
					switch v := vs.Values[i].(type) {
					case *ast.BasicLit:
						if s, err := strconv.Unquote(v.Value); err == nil {
							return s, true
						}
					case *ast.CallExpr:
						if len(v.Args) > 0 {
							if bl, ok := v.Args[0].(*ast.BasicLit); ok {
								if s, err := strconv.Unquote(bl.Value); err == nil {
									return s, true
								}
							}
						}
					}
				}
			}
		}
	}
	return "", false
}

type tagFact struct{ Struct, Field, JSON, GoType string }

func structTags(p *pkgInfo, names []string) []tagFact {
	out := []tagFact{}
	want := map[string]bool{}
	for _, n := range names {
		want[n] = true
	}
	for _, f := range p.files {
		ast.Inspect(f, func(n ast.Node) bool {
			ts, ok := n.(*ast.TypeSpec)
			if !ok || !want[ts.Name.Name] {
				return true
			}
			st, ok := ts.Type.(*ast.StructType)
			if !ok {
				return true
			}
			for _, fl := range st.Fields.List {
				tag := ""
				if fl.Tag != nil {
					if s, err := strconv.Unquote(fl.Tag.Value); err == nil {
						tag = reflect.StructTag(s).Get("json")
					}
				}
				typ := types.ExprString(fl.Type)
				for _, nm := range fl.Names {
					if !nm.IsExported() {
						continue
					}
					out = append(out, tagFact{ts.Name.Name, nm.Name, tag, typ})
				}
			}
			return false
		})
	}
	sort.Slice(out, func(i, j int) bool {
		if out[i].Struct != out[j].Struct {
			return out[i].Struct < out[j].Struct
		}
		return out[i].Field < out[j].Field
	})
	return out
}

// operator strings of every `switch operator` statement, per enclosing function
func operatorSwitches(p *pkgInfo) map[string][]string {
	out := map[string][]string{}
	for _, f := range p.files {
		for _, d := range f.Decls {
			fd, ok := d.(*ast.FuncDecl)
			if !ok || fd.Body == nil {
				continue
			}
			name := fd.Name.Name
			if fd.Recv != nil && len(fd.Recv.List) > 0 {
				name = strings.TrimPrefix(types.ExprString(fd.Recv.List[0].Type), "*") + "." + name
			}
			ast.Inspect(fd.Body, func(n ast.Node) bool {
				sw, ok := n.(*ast.SwitchStmt)
				if !ok {
					return true
				}
				id, ok := sw.Tag.(*ast.Ident)
				if !ok || id.Name != "operator" {
					return true
				}
				ops := []string{}
				for _, cc := range sw.Body.List {
					for _, e := range cc.(*ast.CaseClause).List {
						if bl, ok := e.(*ast.BasicLit); ok {
							if s, err := strconv.Unquote(bl.Value); err == nil {
								ops = append(ops, s)
							}
						}
					}
				}
				sort.Strings(ops)
				out[name] = ops
				return true
			})
		}
	}
	return out
}

// string literals used in the cast switch of FieldDescriptor.castType and newIndexedField's type switch
func castTable(p *pkgInfo) []string {
	out := []string{}
	for _, f := range p.files {
		for _, d := range f.Decls {
			fd, ok := d.(*ast.FuncDecl)
			if !ok || fd.Body == nil || (fd.Name.Name != "castType" && fd.Name.Name != "cast") {
				continue
			}
			ast.Inspect(fd.Body, func(n ast.Node) bool {
				cc, ok := n.(*ast.CaseClause)
				if !ok {
					return true
				}
				lits := []string{}
				for _, e := range cc.List {
					if bl, ok := e.(*ast.BasicLit); ok {
						s, _ := strconv.Unquote(bl.Value)
						lits = append(lits, s)
					}
				}
				ret := ""
				for _, st := range cc.Body {
					if rs, ok := st.(*ast.ReturnStmt); ok && len(rs.Results) > 0 {
						ret = types.ExprString(rs.Results[0])
					}
				}
				if len(lits) > 0 {
					sort.Strings(lits)
					out = append(out, strings.Join(lits, ",")+"=>"+ret)
				}
				return true
			})
		}
	}
	sort.Strings(out)
	return out
}

func writeFormat(p *pkgInfo, dir string) error {
	b := &strings.Builder{}
	b.WriteString("/- GENERATED by /verif/extract from /repo's working tree — do not edit. -/\nnamespace Generated.Format\n\n")
	for _, c := range []string{"SchemaFilename", "DefaultExtension", "compressedExtension", "uuidRegexp"} {
		v, ok := constString(p, c)
		if !ok {
			v = "<<missing>>"
		}
		fmt.Fprintf(b, "def %s : String := %s\n", lowerFirst(c), leanStr(v))
	}
	b.WriteString("\n/-- (struct, field, json tag, Go type) of the persisted structures -/\ndef jsonTags : List (String × String × String × String) := [\n")
	tags := structTags(p, []string{"Schema", "jsonAsync", "jsonObjIndex", "fieldIndex", "FieldDescriptor", "Constraints"})
	for i, t := range tags {
		sep := ","
		if i == len(tags)-1 {
			sep = ""
		}
		fmt.Fprintf(b, "  (%s, %s, %s, %s)%s\n", leanStr(t.Struct), leanStr(t.Field), leanStr(t.JSON), leanStr(t.GoType), sep)
	}
	b.WriteString("]\n\n/-- operator strings accepted by each `switch operator` -/\ndef operators : List (String × List String) := [\n")
	sw := operatorSwitches(p)
	keys := []string{}
	for k := range sw {
		keys = append(keys, k)
	}
	sort.Strings(keys)
	for i, k := range keys {
		qs := []string{}
		for _, o := range sw[k] {
			qs = append(qs, leanStr(o))
		}
		sep := ","
		if i == len(keys)-1 {
			sep = ""
		}
		fmt.Fprintf(b, "  (%s, [%s])%s\n", leanStr(k), strings.Join(qs, ", "), sep)
	}
	b.WriteString("]\n\n/-- Go type names ↦ index cast -/\ndef casts : List String := [\n")
	ct := castTable(p)
	for i, c := range ct {
		sep := ","
		if i == len(ct)-1 {
			sep = ""
		}
		fmt.Fprintf(b, "  %s%s\n", leanStr(c), sep)
	}
	b.WriteString("]\n\nend Generated.Format\n")
	return os.WriteFile(filepath.Join(dir, "Format.lean"), []byte(b.String()), 0644)
}

func lowerFirst(s string) string { return strings.ToLower(s[:1]) + s[1:] }

func main() {
	repo := flag.String("repo", "/repo", "repository")
	out := flag.String("out", "", "output directory (lean/Generated)")
	flag.Parse()
	if *out == "" {
		fmt.Fprintln(os.Stderr, "need -out")
		os.Exit(2)
	}
	p, err := load(*repo)
	if err != nil {
		fmt.Fprintln(os.Stderr, "load:", err)
		os.Exit(1)
	}
	if err := os.MkdirAll(*out, 0755); err != nil {
		panic(err)
	}
	if err := writeFormat(p, *out); err != nil {
		panic(err)
	}
	if err := writeLocks(p, *out); err != nil {
		fmt.Fprintln(os.Stderr, "locks:", err)
		os.Exit(1)
	}
}
