module sodextract

go 1.18
